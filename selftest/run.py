#!/usr/bin/env python3
"""
selftest/run.py [--all-checks] [--tier quick|thorough] [name ...]

Applies each mutant (selftest/mutants/*/patch.diff and seeded/*/patch.diff) to /repo's working
tree, runs the checks it targets (or all 20 with --all-checks), records which checks fire, and
restores /repo (git checkout -- .) straight afterwards.  Never commits anything in /repo.
Results: selftest/results.json  (mutant -> {check -> exit code, violation signatures}).
"""
import glob, json, os, subprocess, sys, time

VERIF = os.path.dirname(os.path.dirname(os.path.abspath(__file__)))
REPO = "/repo"
ALL = ["C%02d" % i for i in range(1, 21)]


def sh(cmd, **kw):
    return subprocess.run(cmd, stdout=subprocess.PIPE, stderr=subprocess.STDOUT, text=True, **kw)


def clean():
    st = sh(["git", "-C", REPO, "status", "--porcelain", "--untracked-files=no"]).stdout.strip()
    return st == ""


def mutants():
    out = []
    for d in sorted(glob.glob(os.path.join(VERIF, "selftest", "mutants", "*"))) + sorted(glob.glob(os.path.join(VERIF, "seeded", "*"))):
        p = os.path.join(d, "patch.diff")
        m = os.path.join(d, "meta.json")
        if os.path.exists(p) and os.path.exists(m):
            meta = json.load(open(m))
            out.append((os.path.basename(d), p, meta))
    return out


def main():
    args = [a for a in sys.argv[1:] if not a.startswith("--")]
    all_checks = "--all-checks" in sys.argv
    tier = "thorough" if "--tier=thorough" in sys.argv else "quick"
    if not clean():
        print("refusing to run: /repo has uncommitted changes to tracked files")
        return 2
    res_path = os.path.join(VERIF, "selftest", "results.json")
    results = json.load(open(res_path)) if os.path.exists(res_path) else {}
    for name, patch, meta in mutants():
        if args and name not in args:
            continue
        targets = meta.get("targets") or ([meta["property"]] if "property" in meta else ALL)
        checks = ALL if all_checks else targets
        rev = ["-R"] if meta.get("reverse") else []
        r = sh(["git", "-C", REPO, "apply"] + rev + [patch])
        if r.returncode != 0:
            print("%-28s PATCH DOES NOT APPLY: %s" % (name, r.stdout.strip()[:200]))
            results[name] = {"error": "patch does not apply"}
            continue
        entry = {"targets": targets, "checks": {}}
        try:
            t0 = time.time()
            for c in checks:
                p = sh([os.path.join(VERIF, "bin", "check"), c, tier], cwd=VERIF, env=dict(os.environ, VERIF_SEED=os.environ.get("VERIF_SEED", "0")))
                sigs = [l.strip()[len("signature="):].split(" profile=")[0] for l in p.stdout.splitlines() if l.strip().startswith("signature=")]
                entry["checks"][c] = {"exit": p.returncode, "signatures": sigs[:12], "inconclusive": [l for l in p.stdout.splitlines() if l.startswith("INCONCLUSIVE")][:2]}
            entry["wall_s"] = round(time.time() - t0, 1)
        finally:
            sh(["git", "-C", REPO, "checkout", "--", "."])
        fired = [c for c, v in entry["checks"].items() if v["exit"] == 1]
        missed = [c for c in targets if entry["checks"].get(c, {}).get("exit") != 1]
        entry["fired"] = fired
        entry["missed_targets"] = missed
        results[name] = entry
        print("%-28s targets=%s fired=%s%s" % (name, ",".join(targets), ",".join(fired) or "-", ("  MISSED: " + ",".join(missed)) if missed else ""))
        json.dump(results, open(res_path, "w"), indent=1, sort_keys=True)
    if not clean():
        print("WARNING: /repo not clean after self-test")
    # rebuild the harness against the restored tree so that later checks start warm
    sh([os.path.join(VERIF, "bin", "setup")], cwd=VERIF)
    return 0


if __name__ == "__main__":
    sys.exit(main())
