#!/usr/bin/env python3
"""
selftest/benign.py [--confirm] [--seed N] [name ...]

False-alarm self-test.  selftest/benign/<name>/patch.diff are behaviour-preserving refactorings of
the crate written by independent sub-agents (each told only "rewrite this area without changing
any observable behaviour"; see notes.md in each directory).  Every one of them must leave all 20
checks silent: a VIOLATION on one of them is a false alarm of the machinery, to be corrected
there (DESIGN.md section 12.3).

  --confirm-only : only that step (does not touch /repo's working tree)
  --confirm : first apply the patch in a scratch worktree (under /tmp, removed afterwards) and run
              the repository's own test suite with it; a refactoring that fails it is not kept.
Then: apply to /repo's working tree, run `bin/check <ID> quick` for all 20, `git checkout -- .`.
Results: selftest/benign_results.json.  Never commits anything in /repo.
"""
import glob, json, os, subprocess, sys, time
from concurrent.futures import ThreadPoolExecutor

VERIF = os.path.dirname(os.path.dirname(os.path.abspath(__file__)))
REPO = "/repo"
ALL = ["C%02d" % i for i in range(1, 21)]


def sh(cmd, **kw):
    return subprocess.run(cmd, stdout=subprocess.PIPE, stderr=subprocess.STDOUT, text=True, **kw)


def clean():
    return sh(["git", "-C", REPO, "status", "--porcelain", "--untracked-files=no"]).stdout.strip() == ""


def confirm(patch):
    wt = "/tmp/benign_confirm_wt"
    sh(["git", "-C", REPO, "worktree", "remove", "--force", wt])
    r = sh(["git", "-C", REPO, "worktree", "add", "--detach", wt, "HEAD"])
    try:
        if r.returncode != 0:
            return False, "worktree: " + r.stdout[-200:]
        r = sh(["git", "-C", wt, "apply", patch])
        if r.returncode != 0:
            return False, "patch does not apply: " + r.stdout[-200:]
        r = sh(["cargo", "test", "--offline", "--workspace", "--no-fail-fast"], cwd=wt, env=dict(os.environ, CARGO_NET_OFFLINE="true"))
        lines = [l.strip() for l in r.stdout.splitlines() if l.startswith("test result:")]
        ok = r.returncode == 0 and lines and all("0 failed" in l for l in lines)
        return ok, "; ".join(lines)[-400:] if lines else r.stdout[-300:]
    finally:
        sh(["git", "-C", REPO, "worktree", "remove", "--force", wt])
        sh(["rm", "-rf", wt])


def run_check(c, seed):
    env = dict(os.environ, VERIF_SEED=str(seed))
    r = sh([os.path.join(VERIF, "bin", "check"), c, "quick"], env=env, cwd=VERIF)
    sigs = sorted({l.strip()[len("signature="):].split(" profile=")[0] for l in r.stdout.splitlines() if l.strip().startswith("signature=")})
    viol = [l for l in r.stdout.splitlines() if l.startswith("VIOLATION") or l.startswith("INCONCLUSIVE")]
    return c, r.returncode, viol[:3], sigs[:6]


def main():
    args = [a for a in sys.argv[1:] if not a.startswith("--")]
    confirm_only = "--confirm-only" in sys.argv
    do_confirm = "--confirm" in sys.argv or confirm_only
    seed = 0
    for a in sys.argv[1:]:
        if a.startswith("--seed="):
            seed = int(a.split("=", 1)[1])
    if not confirm_only and not clean():
        print("refusing to run: /repo has uncommitted changes to tracked files")
        return 2
    res_path = os.path.join(VERIF, "selftest", "benign_results.json")
    results = json.load(open(res_path)) if os.path.exists(res_path) else {}
    bad = 0
    for d in sorted(glob.glob(os.path.join(VERIF, "selftest", "benign", "*"))):
        name = os.path.basename(d)
        patch = os.path.join(d, "patch.diff")
        if (args and name not in args) or not os.path.exists(patch):
            continue
        entry = results.get(name, {})
        if do_confirm:
            ok, how = confirm(patch)
            entry["repo_tests_pass_with_patch"] = ok
            entry["repo_tests"] = how
            if not ok:
                print("%-14s NOT A VALID REFACTORING (repository tests): %s" % (name, how))
                results[name] = entry
                json.dump(results, open(res_path, "w"), indent=1, sort_keys=True)
                continue
        if confirm_only:
            print("%-14s repository tests with patch: %s" % (name, entry["repo_tests"]))
            results[name] = entry
            json.dump(results, open(res_path, "w"), indent=1, sort_keys=True)
            continue
        if entry.get("repo_tests_pass_with_patch") is False:
            continue
        r = sh(["git", "-C", REPO, "apply", patch])
        if r.returncode != 0:
            print("%-14s PATCH DOES NOT APPLY: %s" % (name, r.stdout.strip()[:200]))
            entry["error"] = "patch does not apply"
            results[name] = entry
            continue
        t0 = time.time()
        try:
            # the checks share the harness build lock; 4 at a time keeps the machine busy
            with ThreadPoolExecutor(max_workers=4) as ex:
                out = list(ex.map(lambda c: run_check(c, seed), ALL))
        finally:
            sh(["git", "-C", REPO, "checkout", "--", "."])
        alarms = {c: {"exit": rc, "lines": v, "signatures": s} for c, rc, v, s in out if rc != 0}
        entry.update({"seed": seed, "alarms": alarms, "silent": sorted(c for c, rc, _, _ in out if rc == 0), "wall_s": round(time.time() - t0, 1)})
        entry.pop("error", None)
        results[name] = entry
        json.dump(results, open(res_path, "w"), indent=1, sort_keys=True)
        print("%-14s %s (%.0fs)" % (name, "all 20 checks silent" if not alarms else "ALARMS: " + json.dumps(alarms)[:600], entry["wall_s"]))
        bad += 1 if alarms else 0
        sys.stdout.flush()
    if not clean():
        print("WARNING: /repo not clean at the end")
    return 1 if bad else 0


if __name__ == "__main__":
    sys.exit(main())
