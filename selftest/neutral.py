#!/usr/bin/env python3
"""
selftest/neutral.py confirm <source _out dir> <property id> [round]   (scratch worktree only)
selftest/neutral.py run [--all-checks] [name ...]                (applies to /repo's working tree, restores it)

Over-strictness self-test.  selftest/neutral/<name>/patch.diff are changes written by independent
sub-agents that were given the text of ONE property and asked for a change that alters observable
behaviour in the area of that property (demo.rs pins the difference down) but still SATISFIES the
property as stated (notes.md argues why).  The check of that property must stay silent on them: an
alarm is either an over-strict oracle (corrected in the machinery, DESIGN.md section 12.4) or a
change that does violate the property after all (then it is moved to seeded/ as a real mutant).

confirm: the patch applies, the repository's tests pass with it, the demonstration passes without the
patch and fails with it (i.e. the behaviour change is observable).
"""
import glob, json, os, shutil, subprocess, sys, time

VERIF = os.path.dirname(os.path.dirname(os.path.abspath(__file__)))
REPO = "/repo"
WT = "/tmp/wt_neutral"
ALL = ["C%02d" % i for i in range(1, 21)]


def sh(cmd, cwd=None, timeout=1800, env=None):
    p = subprocess.run(cmd, cwd=cwd, stdout=subprocess.PIPE, stderr=subprocess.STDOUT, text=True, timeout=timeout, env=dict(os.environ, CARGO_NET_OFFLINE="true", **(env or {})))
    return p.returncode, p.stdout


def confirm(src, prop, rnd=""):
    sh(["git", "-C", REPO, "worktree", "remove", "--force", WT])
    shutil.rmtree(WT, ignore_errors=True)
    rc, out = sh(["git", "-C", REPO, "worktree", "add", "--detach", WT, "HEAD"])
    if rc != 0:
        print("cannot create worktree", out)
        return 2
    try:
        for m in sorted(os.listdir(src)):
            d = os.path.join(src, m)
            patch, demo = os.path.join(d, "patch.diff"), os.path.join(d, "demo.rs")
            if not (os.path.isfile(patch) and os.path.isfile(demo)):
                continue
            name = "%sn%s_%s" % (prop, rnd, m.replace("neutral_", ""))
            sh(["git", "checkout", "--", "."], cwd=WT)
            for f in os.listdir(os.path.join(WT, "tests")):
                if f.startswith("neutral_demo"):
                    os.remove(os.path.join(WT, "tests", f))
            log = {}
            rc, out = sh(["git", "apply", patch], cwd=WT)
            log["applies"] = rc == 0
            if rc != 0:
                print(name, "patch does not apply:", out[:200])
                continue
            rc, out = sh(["cargo", "test", "--offline", "--workspace", "--no-fail-fast"], cwd=WT)
            log["existing_tests_pass_with_patch"] = rc == 0
            summary = [l for l in out.splitlines() if l.startswith("test result")]
            shutil.copy(demo, os.path.join(WT, "tests", "neutral_demo.rs"))
            rc, out = sh(["cargo", "test", "--offline", "--test", "neutral_demo"], cwd=WT)
            log["demo_fails_with_patch"] = rc != 0 and ("test result: FAILED" in out or "panicked" in out)
            sh(["git", "apply", "-R", patch], cwd=WT)
            rc, out = sh(["cargo", "test", "--offline", "--test", "neutral_demo"], cwd=WT)
            log["demo_passes_without_patch"] = rc == 0
            os.remove(os.path.join(WT, "tests", "neutral_demo.rs"))
            ok = all(log.values())
            print(name, "CONFIRMED (observable, tests green)" if ok else "NOT CONFIRMED", log)
            if ok:
                dst = os.path.join(VERIF, "selftest", "neutral", name)
                os.makedirs(dst, exist_ok=True)
                shutil.copy(patch, os.path.join(dst, "patch.diff"))
                shutil.copy(demo, os.path.join(dst, "demo.rs"))
                if os.path.isfile(os.path.join(d, "notes.md")):
                    shutil.copy(os.path.join(d, "notes.md"), os.path.join(dst, "notes.md"))
                json.dump({"property": prop, "origin": "independent sub-agent given only the property text and a scratch worktree; asked for a behaviour change that keeps the property", "confirmed": {"when": time.strftime("%Y-%m-%d %H:%M:%S"), "existing_tests_with_patch": summary, "behaviour_change_observable": True}}, open(os.path.join(dst, "meta.json"), "w"), indent=1)
    finally:
        sh(["git", "-C", REPO, "worktree", "remove", "--force", WT])
        shutil.rmtree(WT, ignore_errors=True)
    return 0


def run(names, all_checks):
    st = sh(["git", "-C", REPO, "status", "--porcelain", "--untracked-files=no"])[1].strip()
    if st:
        print("refusing to run: /repo has uncommitted changes to tracked files")
        return 2
    res_path = os.path.join(VERIF, "selftest", "neutral_results.json")
    results = json.load(open(res_path)) if os.path.exists(res_path) else {}
    bad = 0
    for d in sorted(glob.glob(os.path.join(VERIF, "selftest", "neutral", "*"))):
        name = os.path.basename(d)
        if names and name not in names:
            continue
        meta = json.load(open(os.path.join(d, "meta.json")))
        if meta.get("verdict") == "violates-the-property-after-all":
            continue
        checks = ALL if all_checks else [meta["property"]]
        rc, out = sh(["git", "-C", REPO, "apply", os.path.join(d, "patch.diff")])
        if rc != 0:
            print("%-12s PATCH DOES NOT APPLY" % name)
            continue
        entry = {"checks": {}}
        try:
            for c in checks:
                for seed in ("0", "1"):
                    rc, out = sh([os.path.join(VERIF, "bin", "check"), c, "quick"], cwd=VERIF, env={"VERIF_SEED": seed})
                    sigs = sorted({l.strip()[len("signature="):].split(" profile=")[0] for l in out.splitlines() if l.strip().startswith("signature=")})
                    entry["checks"]["%s@%s" % (c, seed)] = {"exit": rc, "signatures": sigs[:8], "inconclusive": [l for l in out.splitlines() if l.startswith("INCONCLUSIVE")][:1]}
        finally:
            sh(["git", "-C", REPO, "checkout", "--", "."])
        alarms = {k: v for k, v in entry["checks"].items() if v["exit"] != 0}
        entry["silent"] = not alarms
        results[name] = entry
        json.dump(results, open(res_path, "w"), indent=1, sort_keys=True)
        print("%-12s %s" % (name, "silent" if not alarms else "ALARM " + json.dumps(alarms)[:700]))
        sys.stdout.flush()
        bad += 1 if alarms else 0
    return 1 if bad else 0


if __name__ == "__main__":
    if len(sys.argv) >= 4 and sys.argv[1] == "confirm":
        sys.exit(confirm(sys.argv[2], sys.argv[3], sys.argv[4] if len(sys.argv) > 4 else ""))
    if len(sys.argv) >= 2 and sys.argv[1] == "run":
        sys.exit(run([a for a in sys.argv[2:] if not a.startswith("--")], "--all-checks" in sys.argv))
    print(__doc__)
    sys.exit(2)
