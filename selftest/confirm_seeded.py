#!/usr/bin/env python3
"""
confirm_seeded.py <source _out dir> <property id> [<name prefix>]

Confirms a sub-agent's seeded change in a scratch worktree of /repo (outside /repo and /verif):
  1. the patch applies and the crate compiles,
  2. the repository's existing test suite passes with the patch,
  3. the demonstration fails with the patch,
  4. the demonstration passes without it.
Only then is it stored as /verif/seeded/<id>/ (patch.diff, demo.rs, notes.md, meta.json).
The scratch worktree and its build output are removed afterwards.
"""
import json, os, shutil, subprocess, sys, time

VERIF = os.path.dirname(os.path.dirname(os.path.abspath(__file__)))
WT = "/tmp/wt_confirm"


def sh(cmd, cwd=None, timeout=1200):
    p = subprocess.run(cmd, cwd=cwd, stdout=subprocess.PIPE, stderr=subprocess.STDOUT, text=True, timeout=timeout, env=dict(os.environ, CARGO_NET_OFFLINE="true"))
    return p.returncode, p.stdout


def main():
    src, prop = sys.argv[1], sys.argv[2]
    prefix = sys.argv[3] if len(sys.argv) > 3 else prop
    sh(["git", "-C", "/repo", "worktree", "remove", "--force", WT])
    shutil.rmtree(WT, ignore_errors=True)
    rc, out = sh(["git", "-C", "/repo", "worktree", "add", "--detach", WT, "HEAD"])
    if rc != 0:
        print("cannot create worktree", out)
        return 2
    results = []
    try:
        for m in sorted(os.listdir(src)):
            d = os.path.join(src, m)
            patch = os.path.join(d, "patch.diff")
            demo = os.path.join(d, "demo.rs")
            if not (os.path.isfile(patch) and os.path.isfile(demo)):
                continue
            name = "%s_%s" % (prefix, m.replace("mutant_", ""))
            log = {}
            sh(["git", "checkout", "--", "."], cwd=WT)
            for f in os.listdir(os.path.join(WT, "tests")):
                if f.startswith("seeded_demo"):
                    os.remove(os.path.join(WT, "tests", f))
            rc, out = sh(["git", "apply", patch], cwd=WT)
            log["applies"] = rc == 0
            if rc != 0:
                print(name, "patch does not apply:", out[:300])
                results.append((name, log))
                continue
            rc, out = sh(["cargo", "test", "--offline", "--workspace", "--no-fail-fast"], cwd=WT)
            log["existing_tests_pass_with_patch"] = rc == 0
            log["existing_tests_summary"] = [l for l in out.splitlines() if l.startswith("test result")]
            shutil.copy(demo, os.path.join(WT, "tests", "seeded_demo.rs"))
            rc, out = sh(["cargo", "test", "--offline", "--test", "seeded_demo"], cwd=WT)
            log["demo_fails_with_patch"] = rc != 0 and ("test result: FAILED" in out or "panicked" in out)
            log["demo_with_patch_tail"] = out.strip().splitlines()[-6:]
            sh(["git", "apply", "-R", patch], cwd=WT)
            rc, out = sh(["cargo", "test", "--offline", "--test", "seeded_demo"], cwd=WT)
            log["demo_passes_without_patch"] = rc == 0
            os.remove(os.path.join(WT, "tests", "seeded_demo.rs"))
            ok = log["existing_tests_pass_with_patch"] and log["demo_fails_with_patch"] and log["demo_passes_without_patch"]
            log["confirmed"] = ok
            print(name, "CONFIRMED" if ok else "NOT CONFIRMED", {k: v for k, v in log.items() if isinstance(v, bool)})
            if ok:
                dst = os.path.join(VERIF, "seeded", name)
                os.makedirs(dst, exist_ok=True)
                shutil.copy(patch, os.path.join(dst, "patch.diff"))
                shutil.copy(demo, os.path.join(dst, "demo.rs"))
                notes = os.path.join(d, "notes.md")
                if os.path.isfile(notes):
                    shutil.copy(notes, os.path.join(dst, "notes.md"))
                meta = {
                    "property": prop,
                    "targets": [prop],
                    "origin": "independent sub-agent given only the property text and a scratch worktree",
                    "needs_to_manifest": "see notes.md",
                    "confirmed": {
                        "when": time.strftime("%Y-%m-%d %H:%M:%S"),
                        "how": "selftest/confirm_seeded.py in a scratch worktree of /repo HEAD: git apply; cargo test --offline --workspace (existing suite); cargo test --test seeded_demo with and without the patch",
                        "existing_tests_with_patch": log["existing_tests_summary"],
                        "demo_fails_with_patch": True,
                        "demo_passes_without_patch": True,
                    },
                }
                json.dump(meta, open(os.path.join(dst, "meta.json"), "w"), indent=1)
            results.append((name, log))
    finally:
        sh(["git", "-C", "/repo", "worktree", "remove", "--force", WT])
        shutil.rmtree(WT, ignore_errors=True)
    return 0


if __name__ == "__main__":
    sys.exit(main())
