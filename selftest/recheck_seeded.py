#!/usr/bin/env python3
"""recheck_seeded.py [name ...]  — re-confirm stored seeded changes against /repo's current HEAD (after a new
fix: commit the context of a patch may have moved).  Same four facts as confirm_seeded.py; updates meta.json."""
import json, os, shutil, subprocess, sys, time
VERIF = os.path.dirname(os.path.dirname(os.path.abspath(__file__)))
WT = "/tmp/wt_recheck"
def sh(cmd, cwd=None):
    p = subprocess.run(cmd, cwd=cwd, stdout=subprocess.PIPE, stderr=subprocess.STDOUT, text=True, env=dict(os.environ, CARGO_NET_OFFLINE="true"))
    return p.returncode, p.stdout
names = sys.argv[1:] or sorted(os.listdir(os.path.join(VERIF, "seeded")))
sh(["git", "-C", "/repo", "worktree", "remove", "--force", WT]); shutil.rmtree(WT, ignore_errors=True)
sh(["git", "-C", "/repo", "worktree", "add", "--detach", WT, "HEAD"])
head = sh(["git", "-C", "/repo", "rev-parse", "--short", "HEAD"])[1].strip()
bad = []
try:
    for n in names:
        d = os.path.join(VERIF, "seeded", n)
        sh(["git", "checkout", "--", "."], cwd=WT)
        t = os.path.join(WT, "tests", "seeded_demo.rs")
        if os.path.exists(t): os.remove(t)
        rc, out = sh(["git", "apply", os.path.join(d, "patch.diff")], cwd=WT)
        if rc != 0:
            print(n, "PATCH DOES NOT APPLY"); bad.append(n); continue
        rc1, out1 = sh(["cargo", "test", "--offline", "--workspace", "--no-fail-fast"], cwd=WT)
        shutil.copy(os.path.join(d, "demo.rs"), t)
        rc2, out2 = sh(["cargo", "test", "--offline", "--test", "seeded_demo"], cwd=WT)
        sh(["git", "apply", "-R", os.path.join(d, "patch.diff")], cwd=WT)
        rc3, out3 = sh(["cargo", "test", "--offline", "--test", "seeded_demo"], cwd=WT)
        os.remove(t)
        ok = rc1 == 0 and rc2 != 0 and rc3 == 0
        print(n, "RECONFIRMED" if ok else "NOT CONFIRMED", {"existing_pass": rc1 == 0, "demo_fails_with": rc2 != 0, "demo_passes_without": rc3 == 0})
        m = json.load(open(os.path.join(d, "meta.json")))
        m["reconfirmed"] = {"repo_head": head, "when": time.strftime("%Y-%m-%d %H:%M:%S"), "ok": ok}
        json.dump(m, open(os.path.join(d, "meta.json"), "w"), indent=1)
        if not ok: bad.append(n)
finally:
    sh(["git", "-C", "/repo", "worktree", "remove", "--force", WT]); shutil.rmtree(WT, ignore_errors=True)
print("not confirmed:", bad)
