#!/usr/bin/env python3
"""Regenerates /verif/MANIFEST.json from the table below (single source of truth)."""
import json, os, subprocess

VERIF = os.path.dirname(os.path.dirname(os.path.abspath(__file__)))

# id -> (level category, technique, level text, level note, design ref)
def X(tech, text, note, ref, cat="exploration"):
    return (cat, tech, text, note, ref)


COMMON_NOTE = " Trusted base: the independent GSE codec (harness/src/wire.rs), the bit-serial CRC-32/MPEG-2 reference and the small executable models in the harness; both build profiles (release = wrapping arithmetic, checked = overflow checks + debug assertions) are run on every check; nothing is claimed about inputs no generator produced."

CHECKS = {
    "C01": X("runtime oracle over a closed length grid: real encap -> real decap round trip compared field by field; must-complete clause judged with the label as written on the wire",
             "Executes the real encapsulator and decapsulator on every PDU length 0..=4100 x 5 label cases x 7 buffer sizes (exact-1/exact/exact+1, 4097, 4098, 65536, 70000) x re-use on/off x 3 storage sizes, plus seeded random cells over all protocol types and content classes (thorough: every protocol type 0x0600..=0xFFFF), the same round trip at the end of seeded lock-step histories (trains in flight, failing calls, stale contexts, scarce storage), and runs of 800 packets under every kind of re-use limit. Lengths are closed exhaustively, contents are sampled.",
             "Round-trip fidelity is judged by comparing delivered bytes/metadata with what was passed; completeness by arithmetic on the label length read from the emitted header." + COMMON_NOTE, "DESIGN.md §5 C01"),
    "C02": X("runtime monitor over seeded buffer-size schedules: monitored sender (progress / only-ErrorSizeBuffer clauses) in lock-step with the real receiver (status, metadata, consumed length, final PDU)",
             "Drives encap + encap_frag over 16 families of buffer-size schedules (constant 13..70000, tiny buffers, payload-fits-but-CRC-does-not, land-on-PDU-end, ramps) for PDUs up to 65533 bytes, every PDU length once (thorough) and feeds every produced packet to a real decapsulator (storage sizes incl. 65535..65537 and multiples of 64 KiB, memories of 1..3 / 255 / 256 slots); also with the sender working ahead of the receiver from one buffer refilled in place, and along runs of 600 PDUs on one pair of endpoints. Held on the schedules generated; the schedule space is unbounded and sampled.",
             "Sender clauses are the weak reading: every buffer >= 13 accepted, per-buffer progress, completion within remaining+1 useful buffers." + COMMON_NOTE, "DESIGN.md §5 C02"),
    "C03": X("fault enumeration on fragment trains with an online reference reassembler evaluated on the bytes actually received (length + bit-serial CRC) and an end-to-end no-delivery oracle for the named fault classes",
             "For seeded trains built by the real encapsulator: every single bit flip, every burst of 2..32 bits inside the protected bytes, truncation at every byte, drop/duplicate/swap of every fragment, frag id <- all 256 values, total length <- all 65536 values, CRC replacements, double faults, adversarially re-sealed trains (wrong interpretation sealed with a valid CRC), spliced trains, > 64 KiB trains with storage >= 64 KiB, and 4..64 KiB PDUs fragmented by the real encapsulator with faults spread over the whole PDU, re-use trains within a label length of the 16-bit limit that carry less than announced, end fragments that arrive damaged and then intact while the application tops up the free list; every other faulted transfer follows a delivery of the intact train on the same receiver. Each faulted transfer is executed on the real decapsulator; a delivery is accepted only if the independent reassembly of the received bytes has the announced length and CRC and equals what was delivered.",
             "CRC collisions for bursts > 32 bits are possible and not alarms (oracle 1 is evaluated on received bytes). Header-bit faults are judged by oracle 1 only." + COMMON_NOTE, "DESIGN.md §5 C03", "fault_enumeration"),
    "C04": X("lock-step sender/receiver history monitor with ground-truth labels (exhaustive bounded-depth histories + random) and a receiver-only trace monitor on mutated streams",
             "All lock-step histories to depth 4 (quick) / 5 (thorough) over an alphabet of about 50 operations (8 labels incl. look-alikes; fitting / fragmenting / header-only / failing calls of every failing kind through encap and encap_ext, signalling PDUs, continuations, continuations from stale contexts, resets, re-use configuration changes, accessor calls, the receiving application draining and refilling the pool; the exact list is in the evidence file) plus long random histories; every produced packet is decapsulated at once and the attributed label compared with the label the caller passed. Independently, recorded traffic is mutated and the receiver's re-use resolutions are checked against the label carried by the nearest preceding start/complete packet.",
             "Bounded depth is closed exhaustively for the chosen alphabet; longer histories are sampled." + COMMON_NOTE, "DESIGN.md §5 C04"),
    "C05": X("totality monitor: catch_unwind + consumed-length bounds on exhaustive short inputs, all 65536 header words with structured tails, mutated valid packets and hostile histories, in 15 receiver states (+ a 64 KiB state)",
             "Every byte string of length 0..=2 (thorough: 0..=3) in each of 15 receiver states; every header word x 7 buffer lengths x adversarial tails; mutated valid packets; random buffers to 8 KiB; hostile histories incl. storage >= 64 KiB with a context near 65535 bytes; the peek function on every input; a reassembly open on all 256 fragment ids at once; a memory wrapper that refuses every trait operation in turn with every documented error; managers declaring 253..255-byte extensions. Panics (also arithmetic-overflow panics in the checked profile) and consumed lengths outside [min(2,len), len] are violations. Thorough tier adds a Miri / ASan layer (memory-safety net).",
             "Inputs longer than 3 bytes are sampled, not closed." + COMMON_NOTE, "DESIGN.md §5 C05"),
    "C06": X("independent parser + byte-exact reference serialiser on every emitted packet over the size lattice, sentinel bytes around the reported length",
             "Every successful encap / encap_frag / encap_ext call of the sender workload (full L x L size lattice for the first call and for continuations, every context position of small PDUs x every buffer size 0..=40, protocol-type sweep, extension chains, prior states) is parsed by an independent TS 102 606 reader, compared byte for byte with a reference serialisation of the intended fields, and the buffer beyond the reported length is compared with a sentinel pattern.",
             "With extensions the total-length field is not judged (the property only fixes it for extension-less packets)." + COMMON_NOTE, "DESIGN.md §5 C06"),
    "C07": X("exhaustive enumeration of order-preserving merges executed on the real receiver, compared packet by packet with each train decapsulated alone; stray packets inserted at every position",
             "All order-preserving merges of 12 (thorough 17) train shapes (up to 5x5, 3x3x3, 2x2x2x2; thorough 4x4x4, 3x3x3x3, 4x5x5) built by the real encapsulator on fragment ids distinct modulo the slot count; for the small shapes every merge x 7 stray kinds (unknown / aliasing id intermediate and end, accepted and rejected complete packet, padding) x every insertion position; restart on the same id (also across label modes and with a full free list); framed strays; refused first fragments of aliasing ids; a PDU in flight on all 256 ids; sampled 4x5 merges with aliasing strays.",
             "Merges are closed for the listed shapes only." + COMMON_NOTE, "DESIGN.md §5 C07"),
    "C08": X("conservation invariant at every quiescent point (clone-and-drain census of the bundled memory vs. the set of buffers ever created, identity = unique length) + failure injection at the GseDecapMemory trait boundary",
             "Random histories of provision / decap (packets targeted at each error exit + hostile) / reset with a full census after every call; then for seeded scenarios every memory operation behind the trait is failed in turn with every documented error (underflow, overflow(buf), too-small(buf), undefined id, corrupted) and the census repeated.",
             "The census relies on SimpleGseMemory: Clone + PartialEq; a buffer consumed by an injected save_frag failure is accounted to the (faulty) memory." + COMMON_NOTE, "DESIGN.md §5 C08", "fault_enumeration"),
    "C09": X("call-boundary monitor: catch_unwind, buffer sentinel compare, Clone/PartialEq state snapshot and behavioural twin after every failed call; mandatory-error clauses",
             "Every call of the sender workload (L x L lattice incl. PDUs > 4095 with buffers > 4097 and PDUs 65534..70000, all protocol types, zero / explicit re-use labels, arbitrary ContextFrag values, extension lists, prior configuration + traffic prefixes) is checked for panics; on Err the buffer must be unchanged, the encapsulator equal to its snapshot and three follow-up calls identical to a never-called twin; previews are run on the same arguments.",
             "State equality uses the crate's derived PartialEq plus the behavioural twin." + COMMON_NOTE, "DESIGN.md §5 C09"),
    "C10": X("twin-receiver differential: frames of real encapsulator output walked by consumed lengths vs. each packet decapsulated alone; tail-independence variants",
             "Seeded frames of up to 40 packets from up to 4 PDUs in flight (trains continue across frames, label memories reset per frame on both sides, signalling protocol types and extensions included), 0..64 padding bytes, listed corruptions (bad CRC, other frag id), receivers short of storage; plus single packets followed by nothing / zeros / 0xFF / random / another packet on identically prepared receivers; lost packets; reassemblies near 65535 bytes; twin and walker on a memory wrapper that refuses the same operation.",
             "Frames are sampled; equality is on outcome (status / error variant, metadata, PDU hash) and consumed length." + COMMON_NOTE, "DESIGN.md §5 C10"),
    "C11": X("trace monitor on successive EncapStatus values with payload slices located by the independent parser; bounded-progress counter on whole runs",
             "Sender workload as C06 plus whole PDUs driven to completion under constant-7, constant-8 and random >= 7 byte schedules: first-fragment context == payload carried, each continuation advances by exactly the bytes written or is the CRC-bearing end packet, payloads are consecutive slices, no empty intermediate fragment, completion within remaining+1 calls.",
             "Judged for PDUs <= 65535 bytes (longer PDUs cannot be started by encap)." + COMMON_NOTE, "DESIGN.md §5 C11"),
    "C12": X("differential against a bit-serial CRC-32/MPEG-2 reference anchored on the published check value; recording CrcCalculator on both sides of real transfers",
             "All 256 values at every byte position of the protected header and the first 64 PDU bytes of seeded messages (every table index at every position), lattice lengths to 65535 (also as sub-slices starting 1..=8 bytes into a larger buffer), random messages, the external check value 0x0376E6E7; end-fragment trailers of real trains and the arguments both sides pass to the calculator; receiver accepts iff trailer == reference.",
             "" + COMMON_NOTE, "DESIGN.md §5 C12"),
    "C13": X("round-trip monitor for extension chains (independent chain walker + real receiver with all-knowing / lacking managers) and exhaustive constructor grid",
             "All 65536 ids x data lengths 0..=10 for Extension::new; seeded chains of 1..4 extensions over every H-LEN class, known non-final and final mandatory extensions, all label kinds, PDUs 0..=64 at EVERY buffer size from 5 to the full packet (fragmentation at every offset), lattice sizes, storage == PDU length and larger, calls preceded by refused calls / by a broadcast packet through encap_ext that the receiver gets, illegal combinations (judged by decodability).",
             "A chain whose last element the receiver's table calls final while the sender's type is >= 0x0600 is a configuration mismatch and not generated." + COMMON_NOTE, "DESIGN.md §5 C13"),
    "C14": X("runtime oracle over complete enumeration: real codec vs independent TS 102 606 reading on all 65536 words and all 65536 triples",
             "Both directions of the header codec are executed on the complete finite input space and compared with an independent reading of the header layout; panics are observed with catch_unwind. Exhaustive: for this property a clean run is a complete decision for the build profiles exercised.",
             "" + COMMON_NOTE, "DESIGN.md §5 C14"),
    "C15": X("sender-only trace automaton over label-type bits of emitted packets: exhaustive bounded-depth histories + random + counter saturation",
             "All histories to depth 4 (quick) / 5 (thorough) over an alphabet of about 40 operations (listed in the evidence file), random histories of 300..3000 operations with N in 1..=255, and enable_max(N) + 600 identical labels for every N; clauses: no substitution while disabled, at most N consecutive substitutions, none after reset / broadcast, only for a label equal to the one carried by the immediately preceding emitted start/complete packet.",
             "Literal reading: only an emitted packet that carries a full or broadcast label ends a run of substitutions (configuration calls and explicit re-use labels do not); N = 0 means unlimited as documented; labels are compared by kind and bytes, never through the crate's own equality." + COMMON_NOTE, "DESIGN.md §5 C15"),
    "C16": X("recovery probe appended to hostile histories on every receiver-state recipe",
             "Seeded prefixes of 1..200 hostile buffers (packets with trailing bytes, storage provisioned at random incl. up to 'full') on 15 receiver states (+ one with all 256 ids open; one receiver in three with max_pdu_frag = 8), then reset + one provisioned buffer, a valid complete packet (half with an extension header) and a valid fragmented PDU (real encapsulator output, a third with an extension header) on a seeded fragment id (all 256 reachable) and label kind; both must be delivered intact with exactly their own metadata; one history in three ends with the shadow of the probe's first fragment.",
             "A decap call of the prefix that panics is a violation (the sequence of calls cannot be completed)." + COMMON_NOTE, "DESIGN.md §5 C16"),
    "C17": X("executable bag model compared after every operation; exhaustive operation sequences to bounded depth + long random sequences; drained-clone audit",
             "For memories of 1..4 slots every sequence of depth 5 (quick) / 7 (thorough) over provision (below / at / above size), new_pdu, new_frag, take_frag on aliasing and non-aliasing ids and save_frag; random sequences up to 10000 operations incl. 255 / 256 slots; foreign and over-sized buffers; contexts with extensions and look-alike fields; a context pending on all 256 ids at once; memories built with 0 slots; free-list capacity calibrated, buffers tagged.",
             "" + COMMON_NOTE, "DESIGN.md §5 C17"),
    "C18": X("differential: preview vs real call on identical arguments over the sender workload",
             "encap_preview vs encap (on an encapsulator without remembered label, and vs the call actually made whenever that call did not substitute a re-use label) and encap_frag_preview vs encap_frag for every call of the sender workload (L x L lattice, all protocol types in thorough, every context position of small PDUs): same error, or same kind / packet length (/ payload length).",
             "Inputs on which the real call panics are C09 findings and skipped here." + COMMON_NOTE, "DESIGN.md §5 C18"),
    "C19": X("differential: peek vs sender knowledge vs independent parser vs decap on every packet of the frame workload, alone and followed by bytes",
             "Every packet emitted in the C10 frame workload (all kinds, labels, substituted and explicit re-use, extensions) is peeked alone, followed by 1..16 bytes and (sampled) at the head of a 64 KiB buffer, before and after its decapsulation and with a peek at another packet in between; what decap then reports must be the packet's own label / the sender's PDU of that fragment id.",
             "" + COMMON_NOTE, "DESIGN.md §5 C19"),
    "C20": X("three-way differential: utils generate/parse vs independent serialiser vs encapsulator output vs decapsulator acceptance, every payload length 0..=4000",
             "For every payload length 0..=4000 and all label kinds: generate == reference serialisation == encapsulator output for the same fields; parse(generate(p)) == p; decap accepts with the same field values (first fragments are completed with a utils-generated end fragment); total lengths up to 65535; fragmented PDUs shorter than a label; two trains in flight for every fragment id on 256 / 255 / 3 / 7-slot memories.",
             "" + COMMON_NOTE, "DESIGN.md §5 C20"),
}

PENDING_REASON = "monitor not built yet in this revision (work in progress; see DESIGN.md §5 for the planned oracle)"


def main():
    props = [json.loads(l) for l in open(os.path.join(VERIF, "properties.jsonl"))]
    hooks_commits = []
    hc = os.path.join(VERIF, "hook_commits.txt")
    if os.path.exists(hc):
        hooks_commits = [l.split()[0] for l in open(hc) if l.strip() and not l.startswith("#")]
    checks = []
    na = []
    for p in props:
        pid = p["id"]
        if pid in CHECKS:
            cat, tech, text, note, ref = CHECKS[pid]
            checks.append(
                {
                    "property_id": pid,
                    "quick_cmd": "bin/check %s quick" % pid,
                    "thorough_cmd": "bin/check %s thorough" % pid,
                    "evidence_file": "/verif/evidence/%s.json" % pid,
                    "replay_cmd_template": "bin/check %s --replay {path}" % pid,
                    "engine": "gsemon",
                    "level_claimed": {"category": cat, "text": text, "design_ref": ref},
                    "level_note": note,
                    "technique": tech,
                }
            )
        else:
            na.append({"property_id": pid, "reason": PENDING_REASON})
    m = {
        "version": 1,
        "setup_cmd": "bin/setup",
        "hooks": {
            "guard": "dvb_gse_rust_verif",
            "enable": "no source hooks are needed: all instrumentation lives in /verif/harness behind the crate's public traits (GseDecapMemory, CrcCalculator, MandatoryHeaderExtensionManager), Clone/PartialEq snapshots and catch_unwind; the cfg name `--cfg dvb_gse_rust_verif` is reserved and currently guards nothing",
            "baseline_off_cmd": "cd /repo && cargo test --workspace --no-fail-fast --offline",
            "source_commits": hooks_commits,
            "add_only": True,
        },
        "engines": [
            {
                "name": "gsemon",
                "path": "/verif/harness",
                "serves_properties": sorted(CHECKS.keys()),
                "kind_free_text": "Rust harness linking the real crate (path dependency on /repo, rebuilt by cargo on every check) in two profiles (release / overflow-checked); monitors = independent GSE codec + bit-serial CRC reference + executable models, observing calls at the public API boundary; driver bin/check merges both profiles, applies known_findings.json and writes evidence",
            }
        ],
        "checks": checks,
        "notes": "Runtime monitoring only (see DESIGN.md). Verdicts are three-valued: exit 0 held / exit 1 VIOLATION / exit 2 INCONCLUSIVE (never with a VIOLATION line). VERIF_SEED seeds every random choice; enumerations do not depend on it.",
        "not_applicable": na,
    }
    with open(os.path.join(VERIF, "MANIFEST.json"), "w") as f:
        json.dump(m, f, indent=1)
        f.write("\n")
    # validate
    try:
        import jsonschema

        jsonschema.validate(m, json.load(open("/root/.vp/MANIFEST.schema.json")))
        print("MANIFEST.json valid;", len(checks), "checks,", len(na), "not_applicable")
    except ImportError:
        print("MANIFEST.json written (jsonschema not importable here)")


if __name__ == "__main__":
    main()
