#!/usr/bin/env python3
"""Regenerates /verif/MANIFEST.json from the table below (single source of truth)."""
import json, os, subprocess

VERIF = os.path.dirname(os.path.dirname(os.path.abspath(__file__)))

# id -> (level category, technique, level text, level note, design ref)
CHECKS = {
    "C14": (
        "exploration",
        "runtime oracle over complete enumeration: real codec vs independent TS 102 606 reading on all 65536 words and all 65536 triples",
        "Both directions of the header codec are executed on the complete finite input space (every 16-bit word; every kind x label type x length triple) and compared with an independent reading of the header layout; panics are observed with catch_unwind. Exhaustive, so for this property a clean run is a complete decision for the build profiles exercised.",
        "Trusts the independent header layout in harness/src/wire.rs; runs two build profiles (release, overflow-checked).",
        "DESIGN.md §5 C14",
    ),
}

PENDING_REASON = "monitor not built yet in this revision (work in progress; see DESIGN.md §5 for the planned oracle)"


def main():
    props = [json.loads(l) for l in open(os.path.join(VERIF, "properties.jsonl"))]
    hooks_commits = []
    hc = os.path.join(VERIF, "hook_commits.txt")
    if os.path.exists(hc):
        hooks_commits = [l.split()[0] for l in open(hc) if l.strip() and not l.startswith("#")]
    checks = []
    na = []
    for p in props:
        pid = p["id"]
        if pid in CHECKS:
            cat, tech, text, note, ref = CHECKS[pid]
            checks.append(
                {
                    "property_id": pid,
                    "quick_cmd": "bin/check %s quick" % pid,
                    "thorough_cmd": "bin/check %s thorough" % pid,
                    "evidence_file": "/verif/evidence/%s.json" % pid,
                    "replay_cmd_template": "bin/check %s --replay {path}" % pid,
                    "engine": "gsemon",
                    "level_claimed": {"category": cat, "text": text, "design_ref": ref},
                    "level_note": note,
                    "technique": tech,
                }
            )
        else:
            na.append({"property_id": pid, "reason": PENDING_REASON})
    m = {
        "version": 1,
        "setup_cmd": "bin/setup",
        "hooks": {
            "guard": "dvb_gse_rust_verif",
            "enable": "no source hooks are needed: all instrumentation lives in /verif/harness behind the crate's public traits (GseDecapMemory, CrcCalculator, MandatoryHeaderExtensionManager), Clone/PartialEq snapshots and catch_unwind; the cfg name `--cfg dvb_gse_rust_verif` is reserved and currently guards nothing",
            "baseline_off_cmd": "cd /repo && cargo test --workspace --no-fail-fast --offline",
            "source_commits": hooks_commits,
            "add_only": True,
        },
        "engines": [
            {
                "name": "gsemon",
                "path": "/verif/harness",
                "serves_properties": sorted(CHECKS.keys()),
                "kind_free_text": "Rust harness linking the real crate (path dependency on /repo, rebuilt by cargo on every check) in two profiles (release / overflow-checked); monitors = independent GSE codec + bit-serial CRC reference + executable models, observing calls at the public API boundary; driver bin/check merges both profiles, applies known_findings.json and writes evidence",
            }
        ],
        "checks": checks,
        "notes": "Runtime monitoring only (see DESIGN.md). Verdicts are three-valued: exit 0 held / exit 1 VIOLATION / exit 2 INCONCLUSIVE (never with a VIOLATION line). VERIF_SEED seeds every random choice; enumerations do not depend on it.",
        "not_applicable": na,
    }
    with open(os.path.join(VERIF, "MANIFEST.json"), "w") as f:
        json.dump(m, f, indent=1)
        f.write("\n")
    # validate
    try:
        import jsonschema

        jsonschema.validate(m, json.load(open("/root/.vp/MANIFEST.schema.json")))
        print("MANIFEST.json valid;", len(checks), "checks,", len(na), "not_applicable")
    except ImportError:
        print("MANIFEST.json written (jsonschema not importable here)")


if __name__ == "__main__":
    main()
