#!/usr/bin/env python3
"""
Sanitizer layers of the thorough tier (imported by bin/check; can also be run alone:
    bin/sanitize.py <ID> [seed]).

The crate under test has no `unsafe` today, so these layers are a safety net for changes that
introduce it (an "optimised" copy with get_unchecked / ptr::copy, a transmute in the header codec):
what was "no panic" then silently becomes memory corruption that the panic monitors cannot see.

  * ASan  : the harness is rebuilt on the nightly toolchain with -Zsanitizer=address and the
            property's QUICK workload is run in full (about 4-15x slower than the plain build);
  * Miri  : the same binary under `cargo +nightly miri run`, sharded over 16 processes, every
            16th key of each generator with a wall budget per generator (Miri is ~10^4 x slower).

A report (ASan error / Miri "Undefined Behavior") is a violation of the property whose workload
triggered it, clause `memory-safety`.  A tool that cannot be built or run is recorded as
`unavailable`; that never changes the verdict.
"""
import json, os, subprocess, sys, time

VERIF = os.path.dirname(os.path.dirname(os.path.abspath(__file__)))
HARNESS = os.path.join(VERIF, "harness")
PARTS = os.path.join(VERIF, "evidence", ".parts")
SAN_PROPS = {"C03", "C05", "C06", "C08", "C09", "C13", "C17"}
ASAN_TARGET = "x86_64-unknown-linux-gnu"


def _env(extra):
    e = dict(os.environ)
    e["CARGO_NET_OFFLINE"] = "true"
    e.update(extra)
    return e


def _first_frames(text, n=6):
    out = []
    for l in text.splitlines():
        l = l.strip()
        if l.startswith("#") and (" in " in l):
            out.append(l.split(" in ", 1)[1][:160])
        if len(out) >= n:
            break
    return out


def asan(pid, seed):
    t0 = time.time()
    res = {"tool": "AddressSanitizer (rustc nightly -Zsanitizer=address)", "status": "unavailable"}
    flags = "-Zsanitizer=address -Cforce-frame-pointers=yes -A warnings"
    b = subprocess.run(["cargo", "+nightly", "build", "--offline", "--quiet", "--release", "--target", ASAN_TARGET, "--target-dir", "target-asan"], cwd=HARNESS, env=_env({"RUSTFLAGS": flags}), stdout=subprocess.PIPE, stderr=subprocess.STDOUT, text=True)
    if b.returncode != 0:
        res["detail"] = "build failed: " + b.stdout[-400:]
        return res, []
    exe = os.path.join(HARNESS, "target-asan", ASAN_TARGET, "release", "gsemon")
    os.makedirs(PARTS, exist_ok=True)
    out = os.path.join(PARTS, "%s.asan.%d.json" % (pid, os.getpid()))
    if os.path.exists(out):
        os.remove(out)
    try:
        p = subprocess.run([exe, pid, "quick", "--seed", str(seed), "--profile", "asan", "--threads", str(os.cpu_count() or 8), "--out", out], cwd=VERIF, env=_env({"ASAN_OPTIONS": "halt_on_error=1:abort_on_error=0:detect_leaks=0:exitcode=77"}), stdout=subprocess.PIPE, stderr=subprocess.PIPE, text=True, timeout=1800)
    except subprocess.TimeoutExpired:
        res["detail"] = "watchdog fired"
        return res, []
    viol = []
    res["wall_s"] = round(time.time() - t0, 1)
    if "AddressSanitizer" in (p.stderr or "") or p.returncode == 77:
        frames = _first_frames(p.stderr)
        kind = "unknown"
        for l in p.stderr.splitlines():
            if "ERROR: AddressSanitizer:" in l:
                kind = l.split("ERROR: AddressSanitizer:", 1)[1].strip().split(" ")[0]
                break
        res["status"] = "report"
        res["detail"] = p.stderr[-1500:]
        viol.append({"signature": "memory-safety:asan:%s" % kind, "detail": "AddressSanitizer %s while running the quick workload of %s; first frames: %s" % (kind, pid, " <- ".join(frames))})
        return res, viol
    try:
        part = json.load(open(out))
        os.remove(out)
        res["status"] = "clean"
        res["evaluations"] = part.get("evaluations")
        res["oracle_violations_seen"] = len(part.get("violations", []))
    except Exception as e:  # noqa
        res["detail"] = "no evidence produced (exit %s): %s" % (p.returncode, (p.stderr or "")[-300:])
    return res, viol


def miri(pid, seed, shards=16, stride=16, budget_ms=10000):
    t0 = time.time()
    res = {"tool": "Miri (cargo +nightly miri run)", "status": "unavailable", "shards": shards, "key_stride": stride, "gen_budget_ms": budget_ms}
    os.makedirs(PARTS, exist_ok=True)
    env = _env({"MIRIFLAGS": "-Zmiri-disable-isolation", "RUSTFLAGS": "-A warnings"})
    base = ["cargo", "+nightly", "miri", "run", "--offline", "--quiet", "--target-dir", "target-miri", "--"]
    # build once (a run that does nothing) so that the shards do not queue on the build lock
    b = subprocess.run(base + [pid, "quick", "--only-gen", "__none__", "--threads", "1"], cwd=HARNESS, env=env, stdout=subprocess.PIPE, stderr=subprocess.PIPE, text=True)
    if b.returncode not in (0, 2):
        res["detail"] = "miri unavailable or build failed: " + (b.stderr or "")[-400:]
        return res, []
    procs = []
    for i in range(shards):
        out = os.path.join(PARTS, "%s.miri.%d.%d.json" % (pid, os.getpid(), i))
        if os.path.exists(out):
            os.remove(out)
        cmd = base + [pid, "quick", "--seed", str(seed * 1000 + i), "--profile", "miri", "--threads", "1", "--key-stride", str(stride), "--key-offset", str(i), "--gen-budget-ms", str(budget_ms), "--out", out]
        procs.append((out, subprocess.Popen(cmd, cwd=HARNESS, env=env, stdout=subprocess.PIPE, stderr=subprocess.PIPE, text=True)))
    viol, evals, ok = [], 0, 0
    deadline = time.time() + 420  # generators poll their budget; this only guards against a stuck shard
    for out, p in procs:
        try:
            so, se = p.communicate(timeout=max(5, deadline - time.time()))
        except subprocess.TimeoutExpired:
            p.kill()
            p.communicate()
            continue
        if "Undefined Behavior" in (se or ""):
            lines = [l for l in se.splitlines() if l.strip()]
            first = next((l for l in lines if "Undefined Behavior" in l), "")
            where = [l.strip() for l in lines if l.strip().startswith("--> ") or "inside `" in l][:5]
            sig = "memory-safety:miri:" + first.split("Undefined Behavior:", 1)[-1].strip()[:60].replace(" ", "-")
            viol.append({"signature": sig, "detail": "Miri reported Undefined Behavior while running the (reduced) quick workload of %s: %s | %s" % (pid, first.strip(), " ; ".join(where))})
            continue
        try:
            part = json.load(open(out))
            os.remove(out)
            evals += part.get("evaluations", 0)
            ok += 1
        except Exception:  # noqa
            pass
    res["wall_s"] = round(time.time() - t0, 1)
    res["shards_completed"] = ok
    res["evaluations"] = evals
    if viol:
        res["status"] = "report"
    elif ok > 0:
        res["status"] = "clean"
    else:
        res["detail"] = "no shard produced evidence"
    return res, viol


def run(pid, seed):
    layers, viol = {}, []
    if pid not in SAN_PROPS:
        return layers, viol
    for name, fn in (("asan", asan), ("miri", miri)):
        try:
            r, v = fn(pid, seed)
        except Exception as e:  # noqa
            r, v = {"status": "unavailable", "detail": "exception: %s" % e}, []
        layers[name] = r
        viol.extend(v)
    return layers, viol


if __name__ == "__main__":
    l, v = run(sys.argv[1], int(sys.argv[2]) if len(sys.argv) > 2 else 0)
    print(json.dumps({"layers": l, "violations": v}, indent=1))
