//! Label re-use histories shared by C04 (lock-step sender/receiver attribution) and C15 (sender
//! policy bounds): operation alphabet, executor, trace monitors.

use crate::mon::guard;
use crate::report::Report;
use crate::rng::{hex_short, Rng};
use crate::rxspec::{RxSpec, RX_C04};
use crate::sender::{gen_chain, ExtSpec};
use crate::util::*;
use crate::wire::{self, ExtEntry, Kind, MandTable};
use dvb_gse_rust::crc::DefaultCrc;
use dvb_gse_rust::gse_decap::DecapStatus;
use dvb_gse_rust::gse_encap::{ContextFrag, EncapMetadata, EncapStatus, Encapsulator};
use dvb_gse_rust::header_extension::Extension;
use dvb_gse_rust::label::Label;

pub const LABELS: [Label; 9] = [
    Label::SixBytesLabel([0xA6, 1, 2, 3, 4, 5]),
    Label::SixBytesLabel([0xB6, 1, 2, 3, 4, 5]),
    Label::ThreeBytesLabel([0xC3, 1, 2]),
    Label::ThreeBytesLabel([0, 0, 0]),
    Label::Broadcast,
    Label::ReUse,
    Label::SixBytesLabel([0, 0, 0, 0, 0, 0]),
    // a 6-byte label with the same numeric value as the 3-byte label C3
    Label::SixBytesLabel([0, 0, 0, 0xC3, 1, 2]),
    // a 6-byte label that shares its first three bytes with A6
    Label::SixBytesLabel([0xA6, 1, 2, 9, 9, 9]),
];
pub const LABEL_NAMES: [&str; 9] = ["A6", "B6", "C3", "D3", "bc", "ru", "z6", "E6", "F6"];

/// label identity by kind and bytes (never through the crate's own `PartialEq for Label`)
pub fn same_label(a: &Label, b: &Label) -> bool {
    lt_of_label(a) == lt_of_label(b) && label_bytes(a) == label_bytes(b)
}

#[derive(Clone, Copy, Debug, PartialEq, Eq)]
pub enum Outcome {
    Fits,
    Fragments,
    /// first fragment into a buffer of exactly the header size for the label passed (no payload byte)
    HeaderOnly,
    /// first fragment that leaves only a few bytes for the end packet (buffer one byte short of the
    /// complete packet with an empty label)
    FragTail,
    TooSmall,
    TooLong,
    BadPtype,
    /// a signalling PDU: encap_ext with the final mandatory extension 0x0081 (= its protocol type), fitting
    Signalling,
    /// a signalling PDU through plain `encap` (protocol type 0x0081, no extension), fitting
    SignallingPlain,
    /// a PDU that is too long only because of the label it would be sent with (65534 - label bytes)
    TooLongByLabel,
    /// encap_ext with a protocol type below 0x0100 that is not the id of its last (mandatory) extension
    BadFinalExt,
}

#[derive(Clone, Copy, Debug, PartialEq, Eq)]
pub enum Op {
    Enc { label: u8, outcome: Outcome, ext: bool },
    /// continue the oldest pending fragment train to completion
    Cont,
    /// call encap_frag again with a context that is no longer current: the context of a train that was
    /// superseded by a newer train on its fragment id, or of a train already finished (a re-sent end packet)
    ContStale,
    Reset,
    Disable,
    Enable,
    EnableMax(u8),
    /// calls that are not supposed to touch the label policy: replace the CRC calculator by an equal one,
    /// read it back, ask whether re-use is enabled, carry on with a clone of the encapsulator
    Accessors,
    /// the receiving application takes buffers out of the decapsulator with its public `new_pdu` until it
    /// reports that none is left, then provisions them all again
    AppDrain,
    /// the next fragmented PDU takes the fragment id of the previous one (a restart on the same id)
    SameId,
}

pub fn op_str(op: &Op) -> String {
    match op {
        Op::Enc { label, outcome, ext } => format!("{}({},{:?})", if *ext { "encap_ext" } else { "encap" }, LABEL_NAMES[*label as usize], outcome),
        Op::Cont => "encap_frag(pending)".into(),
        Op::ContStale => "encap_frag(stale context)".into(),
        Op::Reset => "reset".into(),
        Op::Disable => "disable".into(),
        Op::Enable => "enable".into(),
        Op::EnableMax(n) => format!("enable_max({})", n),
        Op::Accessors => "set_crc_calculator/get_crc_calculator/is_enabled_re_use_label/clone".into(),
        Op::AppDrain => "receiver: new_pdu until empty, provision all again".into(),
        Op::SameId => "next PDU on the previous fragment id".into(),
    }
}

pub fn hist_str(h: &[Op]) -> String {
    h.iter().map(op_str).collect::<Vec<_>>().join("; ")
}

/// alphabet for the sender-only policy property (C15)
pub fn alphabet_c15() -> Vec<Op> {
    let mut v = Vec::new();
    for l in 0..6u8 {
        v.push(Op::Enc { label: l, outcome: Outcome::Fits, ext: false });
        v.push(Op::Enc { label: l, outcome: Outcome::TooSmall, ext: false });
        v.push(Op::Enc { label: l, outcome: Outcome::Fits, ext: true });
    }
    v.push(Op::Enc { label: 0, outcome: Outcome::Fragments, ext: false });
    v.push(Op::Enc { label: 2, outcome: Outcome::Fragments, ext: false });
    // start packets into a buffer of exactly the header size; failures other than "buffer too small";
    // a 6-byte label numerically equal to the 3-byte one
    v.push(Op::Enc { label: 1, outcome: Outcome::HeaderOnly, ext: false });
    v.push(Op::Enc { label: 4, outcome: Outcome::HeaderOnly, ext: false });
    v.push(Op::Enc { label: 0, outcome: Outcome::TooLong, ext: false });
    v.push(Op::Enc { label: 0, outcome: Outcome::TooLong, ext: true });
    v.push(Op::Enc { label: 7, outcome: Outcome::Fits, ext: false });
    v.push(Op::Enc { label: 8, outcome: Outcome::Fits, ext: false });
    v.push(Op::Enc { label: 2, outcome: Outcome::Signalling, ext: true });
    v.push(Op::Enc { label: 1, outcome: Outcome::TooLongByLabel, ext: false });
    v.push(Op::Enc { label: 2, outcome: Outcome::BadFinalExt, ext: true });
    v.push(Op::Enc { label: 1, outcome: Outcome::SignallingPlain, ext: false });
    v.push(Op::Enc { label: 4, outcome: Outcome::SignallingPlain, ext: false });
    v.extend([Op::Reset, Op::Disable, Op::Enable, Op::EnableMax(0), Op::EnableMax(1), Op::EnableMax(2), Op::EnableMax(255), Op::Accessors]);
    v
}

/// alphabet for the lock-step property (C04)
pub fn alphabet_c04() -> Vec<Op> {
    let mut v = Vec::new();
    for l in 0..6u8 {
        v.push(Op::Enc { label: l, outcome: Outcome::Fits, ext: false });
        v.push(Op::Enc { label: l, outcome: Outcome::TooSmall, ext: false });
        v.push(Op::Enc { label: l, outcome: Outcome::Fragments, ext: false });
    }
    for l in [0u8, 2] {
        // encap_ext that fragments (label memory, CRC and re-use substitution on the extension path)
        v.push(Op::Enc { label: l, outcome: Outcome::Fragments, ext: true });
    }
    for l in [0u8, 2, 4] {
        v.push(Op::Enc { label: l, outcome: Outcome::Fits, ext: true });
        v.push(Op::Enc { label: l, outcome: Outcome::TooLong, ext: false });
        v.push(Op::Enc { label: l, outcome: Outcome::BadPtype, ext: false });
    }
    v.push(Op::Enc { label: 6, outcome: Outcome::Fits, ext: false });
    v.push(Op::Enc { label: 7, outcome: Outcome::Fits, ext: false });
    v.push(Op::Enc { label: 0, outcome: Outcome::FragTail, ext: false });
    v.push(Op::Enc { label: 2, outcome: Outcome::FragTail, ext: false });
    v.push(Op::Enc { label: 1, outcome: Outcome::HeaderOnly, ext: false });
    v.push(Op::Enc { label: 8, outcome: Outcome::Fits, ext: false });
    v.push(Op::Enc { label: 1, outcome: Outcome::Signalling, ext: true });
    v.push(Op::Enc { label: 4, outcome: Outcome::Signalling, ext: true });
    v.push(Op::Enc { label: 1, outcome: Outcome::TooLongByLabel, ext: false });
    v.push(Op::Enc { label: 2, outcome: Outcome::TooLongByLabel, ext: false });
    v.push(Op::Enc { label: 1, outcome: Outcome::BadFinalExt, ext: true });
    v.push(Op::Enc { label: 2, outcome: Outcome::SignallingPlain, ext: false });
    v.push(Op::AppDrain);
    v.push(Op::SameId);
    v.extend([Op::Cont, Op::ContStale, Op::Reset, Op::Disable, Op::Enable, Op::EnableMax(0), Op::EnableMax(1), Op::EnableMax(2), Op::Accessors]);
    v
}

fn trace_on() -> bool {
    static T: std::sync::OnceLock<bool> = std::sync::OnceLock::new();
    *T.get_or_init(|| std::env::var("GSEMON_TRACE").is_ok())
}

thread_local! {
    static LONG_PDU: Vec<u8> = vec![0x5Au8; 65536];
}

struct Pending {
    pdu: Vec<u8>,
    ctx: ContextFrag,
    intended: Option<Label>,
    must_deliver: bool,
    superseded: bool,
    /// a packet of another PDU was sent on this train's fragment id while it was in flight (or this is
    /// itself such a packet): the receiver may legitimately refuse it, nothing is demanded about it
    spoiled: bool,
}

/// Executes a history. `with_rx` = lock-step receiver (C04); otherwise sender only (C15).
pub struct Exec {
    pub enc: Encapsulator<DefaultCrc>,
    pub dec: Option<PlainDec>,
    pub rx: RxSpec,
    // --- C15 trace automaton
    enabled: bool,
    max_n: u8,
    consecutive: u32,
    carried: Option<Label>,
    // --- C04 ground truth
    prev_intended: Option<Label>,
    pending: Vec<Pending>,
    /// contexts that are no longer current (superseded or finished trains), newest last
    stale: Vec<Pending>,
    next_id: u8,
    seq: u32,
    pub emitted_packets: u64,
    pub substitutions: u64,
    pub deliveries: u64,
    pub failed_calls: u64,
    /// packets the lock-step receiver rejected
    pub rx_errors: u64,
    /// of which: packets sent from a stale context / of a train spoiled by one (the sender mixed two PDUs
    /// on one fragment id; rejecting them is the receiver's duty)
    pub rx_benign: u64,
    /// packets of PDUs that had to be delivered and were rejected all the same (a violation for C04; the
    /// history stays conclusive for C01)
    pub rx_unexpected: u64,
    /// when > 0: the receiving application KEEPS every n-th delivered buffer (the pool drains; packets are then
    /// refused for lack of storage, which is a legitimate reason for the two sides to lose step)
    pub keep_every: u64,
    /// packets produced (for receiver-only stream mutation)
    pub record: Option<Vec<Vec<u8>>>,
}

pub const M_C04: u32 = 1;
pub const M_C15: u32 = 2;

impl Exec {
    pub fn new(with_rx: bool) -> Self {
        Self::with_buffers(with_rx, 6)
    }

    /// receiver provisioned with `nbuf` storage buffers
    pub fn with_buffers(with_rx: bool, nbuf: usize) -> Self {
        // the receiver uses the crate's signalisation table (knows 0x0081 / 0x0082 as final, data-less)
        let table = MandTable::signalisation();
        Exec {
            enc: Encapsulator::new(DefaultCrc {}),
            dec: if with_rx { Some(plain_dec(4, 64, nbuf, 64, table.clone())) } else { None },
            rx: RxSpec::new(table),
            enabled: true,
            max_n: 0,
            consecutive: 0,
            carried: None,
            prev_intended: None,
            pending: Vec::new(),
            stale: Vec::new(),
            next_id: 0,
            seq: 0,
            emitted_packets: 0,
            substitutions: 0,
            deliveries: 0,
            failed_calls: 0,
            rx_errors: 0,
            rx_benign: 0,
            rx_unexpected: 0,
            keep_every: 0,
            record: None,
        }
    }

    /// returns false when the history must be abandoned (panic / harness limitation)
    pub fn step(&mut self, op: &Op, mask: u32, hist: &dyn Fn() -> String, rep: &mut Report, replay: &dyn Fn() -> String) -> bool {
        rep.eval();
        if trace_on() {
            eprintln!("op {} (pending ids {:?})", op_str(op), self.pending.iter().map(|p| p.ctx.frag_id()).collect::<Vec<_>>());
        }
        match op {
            Op::Reset => {
                self.enc.reset_last_label();
                if let Some(d) = &mut self.dec {
                    d.reset_last_label();
                }
                self.rx.reset_label();
                self.carried = None;
                self.consecutive = 0;
                self.prev_intended = None;
                true
            }
            // configuration calls do NOT end a run of re-use packets on the wire: the property bounds the
            // packets emitted before one carrying the full label (literal reading; holds on the real code
            // because enabling forgets the remembered label)
            Op::Disable => {
                self.enc.disable_re_use_label();
                self.enabled = false;
                self.max_n = 0;
                true
            }
            Op::Enable => {
                self.enc.enable_re_use_label();
                self.enabled = true;
                self.max_n = 0;
                true
            }
            Op::EnableMax(n) => {
                self.enc.enable_re_use_label_with_max_consecutive(*n);
                self.enabled = true;
                self.max_n = *n;
                true
            }
            Op::SameId => {
                self.next_id = self.next_id.wrapping_sub(1);
                true
            }
            Op::AppDrain => {
                if let Some(d) = &mut self.dec {
                    let mut taken = Vec::new();
                    for _ in 0..64 {
                        match guard(|| d.new_pdu()) {
                            Ok(Ok(b)) => taken.push(b),
                            _ => break,
                        }
                    }
                    for b in taken {
                        let _ = d.provision_storage(b);
                    }
                }
                true
            }
            Op::Accessors => {
                self.enc.set_crc_calculator(DefaultCrc {});
                let _ = self.enc.get_crc_calculator();
                let _ = self.enc.is_enabled_re_use_label();
                // ... and the stream is carried on by a clone of the encapsulator (the original is dropped)
                let copy = self.enc.clone();
                self.enc = copy;
                true
            }
            Op::Cont => {
                if self.pending.is_empty() {
                    return true;
                }
                let p = self.pending.remove(0);
                let mut buf = vec![0u8; 200];
                let r = guard(|| self.enc.encap_frag(&p.pdu, &p.ctx, &mut buf));
                match r {
                    Ok(Ok(EncapStatus::CompletedPkt(n))) if (n as usize) <= buf.len() => {
                        buf.truncate(n as usize);
                        self.feed(&buf, Some((&p, true)), mask, hist, rep, replay);
                        self.stale.push(p);
                        if self.stale.len() > 4 {
                            self.stale.remove(0);
                        }
                        true
                    }
                    _ => {
                        rep.count("labelops.cont-failed");
                        false
                    }
                }
            }
            Op::ContStale => {
                let mut p = match self.stale.pop() {
                    Some(p) => p,
                    None => return true,
                };
                let mut buf = vec![0u8; 200];
                let r = guard(|| self.enc.encap_frag(&p.pdu, &p.ctx, &mut buf));
                match r {
                    Ok(Ok(EncapStatus::CompletedPkt(n))) if (n as usize) <= buf.len() => {
                        buf.truncate(n as usize);
                        rep.count("labelops.stale-end-packets");
                        // whatever train is in flight on that id is mixed up with this packet from now on
                        let id = p.ctx.frag_id();
                        for q in self.pending.iter_mut() {
                            if q.ctx.frag_id() == id {
                                q.spoiled = true;
                                q.must_deliver = false;
                            }
                        }
                        p.spoiled = true;
                        p.must_deliver = false;
                        self.feed(&buf, Some((&p, true)), mask, hist, rep, replay);
                        true
                    }
                    _ => {
                        rep.count("labelops.cont-failed");
                        false
                    }
                }
            }
            Op::Enc { label, outcome, ext } => {
                let l = LABELS[*label as usize];
                self.seq += 1;
                // only two different PDU contents: two PDUs of a history often have the same bytes, so that a fragment
                // attached to the wrong reassembly still passes the length and CRC checks and the mis-attribution shows
                let small: Vec<u8> = (0..40u8).map(|i| i.wrapping_mul(3).wrapping_add((self.seq % 2) as u8)).collect();
                let (pdu, blen, ptype): (Vec<u8>, usize, u16) = match outcome {
                    Outcome::Fits => (small[..20].to_vec(), 64, 0x0800),
                    Outcome::Fragments => (small.clone(), 24, 0x0800),
                    Outcome::HeaderOnly => (small[..20].to_vec(), 7 + label_bytes(&l).len(), 0x0800),
                    Outcome::FragTail => (small[..20].to_vec(), 23, 0x0800),
                    Outcome::TooSmall => (small[..20].to_vec(), 3, 0x0800),
                    Outcome::TooLong => (LONG_PDU.with(|p| p.clone()), 64, 0x0800),
                    Outcome::BadPtype => (small[..20].to_vec(), 64, 0x0200),
                    Outcome::Signalling => (small[..20].to_vec(), 64, 0x0081),
                    Outcome::SignallingPlain => (small[..20].to_vec(), 64, 0x0081),
                    Outcome::TooLongByLabel => (LONG_PDU.with(|p| p[..65534 - label_bytes(&l).len()].to_vec()), 64, 0x0800),
                    Outcome::BadFinalExt => (small[..20].to_vec(), 64, 0x0043),
                };
                // fragment ids cycle through 0..=3; every fifth train takes the id 4 higher, which shares the slot (4-slot receiver)
                let frag_id = if self.next_id % 5 == 4 { self.next_id % 4 + 4 } else { self.next_id % 4 };
                let mut buf = vec![0u8; blen];
                let meta = EncapMetadata::new(ptype, l);
                let r = if *outcome == Outcome::BadFinalExt {
                    let e = vec![Extension::new(0x0042, &[1, 2]).unwrap()];
                    guard(|| self.enc.encap_ext(&pdu, frag_id, meta, &mut buf, e))
                } else if *outcome == Outcome::Signalling {
                    let e = vec![Extension::new(0x0081, &[]).unwrap()];
                    guard(|| self.enc.encap_ext(&pdu, frag_id, meta, &mut buf, e))
                } else if *ext {
                    let e = vec![Extension::new(0x0123, &[]).unwrap()];
                    guard(|| self.enc.encap_ext(&pdu, frag_id, meta, &mut buf, e))
                } else {
                    guard(|| self.enc.encap(&pdu, frag_id, meta, &mut buf))
                };
                let st = match r {
                    Err(_) => {
                        rep.count("labelops.sender-panic");
                        return false;
                    }
                    Ok(Err(_)) => {
                        self.failed_calls += 1;
                        return true;
                    }
                    Ok(Ok(s)) => s,
                };
                let (n, ctx) = status_parts(&st);
                if n < 2 || n > buf.len() {
                    rep.count("labelops.bad-reported-length");
                    return false;
                }
                buf.truncate(n);
                self.emitted_packets += 1;
                let lt = wire::lt_of_word(u16::from_be_bytes([buf[0], buf[1]]));
                // ---------------- C15 trace automaton
                let is36 = matches!(l, Label::SixBytesLabel(_) | Label::ThreeBytesLabel(_));
                let substituted = is36 && lt == 3;
                let cls = format!("{}{}", if *ext { "ext:" } else { "" }, if ctx.is_some() { "first" } else { "complete" });
                if substituted {
                    self.substitutions += 1;
                    self.consecutive += 1;
                    if mask & M_C15 != 0 {
                        if !self.enabled {
                            rep.violation("C15", format!("substitution-while-disabled:{}", cls), || format!("history [{}]: label {} replaced by re-use although re-use is disabled", hist(), label_str(&l)), replay);
                        }
                        match self.carried {
                            None => rep.violation("C15", format!("substitution-without-predecessor:{}", cls), || format!("history [{}]: label {} replaced by re-use although the preceding start/complete packet of this frame carries no label (reset / broadcast / none)", hist(), label_str(&l)), replay),
                            Some(c) if !same_label(&c, &l) => rep.violation("C15", format!("substitution-for-different-label:{}", cls), || format!("history [{}]: label {} replaced by re-use but the immediately preceding start/complete packet carried {}", hist(), label_str(&l), label_str(&c)), replay),
                            _ => {}
                        }
                        if self.max_n > 0 && self.consecutive > self.max_n as u32 {
                            rep.violation("C15", format!("more-than-max-consecutive:{}", cls), || format!("history [{}]: {} consecutive re-use substitutions with a maximum of {}", hist(), self.consecutive, self.max_n), replay);
                        }
                    }
                    // the packet refers to the same label: `carried` is unchanged when it was right
                } else {
                    // only a packet that carries a full label (or broadcast) ends a run of substitutions; an
                    // explicit re-use label passed by the caller neither counts nor ends it
                    if l != Label::ReUse {
                        self.consecutive = 0;
                    }
                    match l {
                        Label::Broadcast => self.carried = None,
                        Label::ReUse => {}
                        _ => {
                            if lt == lt_of_label(&l) {
                                self.carried = Some(l);
                            } else {
                                self.carried = None;
                            }
                        }
                    }
                }
                // ---------------- C04 ground truth
                let intended = if l == Label::ReUse { self.prev_intended } else { Some(l) };
                self.prev_intended = intended;
                let must_deliver = l != Label::ReUse;
                if let Some(c) = ctx {
                    // a new train on an id whose train is still pending supersedes it
                    // a first fragment claims its slot: a train of ANOTHER id in that slot is dropped by the receiver
                    for q in self.pending.iter_mut() {
                        if q.ctx.frag_id() != frag_id && q.ctx.frag_id() % 4 == frag_id % 4 {
                            q.spoiled = true;
                            q.must_deliver = false;
                        }
                    }
                    let mut i = 0;
                    while i < self.pending.len() {
                        if self.pending[i].ctx.frag_id() == frag_id {
                            let mut old = self.pending.remove(i);
                            old.superseded = true;
                            self.stale.push(old);
                        } else {
                            i += 1;
                        }
                    }
                    if self.stale.len() > 4 {
                        self.stale.remove(0);
                    }
                    let p = Pending { pdu: pdu.clone(), ctx: c, intended, must_deliver, superseded: false, spoiled: false };
                    self.feed(&buf, Some((&p, false)), mask, hist, rep, replay);
                    self.pending.push(p);
                    self.next_id = self.next_id.wrapping_add(1);
                } else {
                    let p = Pending { pdu: pdu.clone(), ctx: ContextFrag::new(0, 0, 0), intended, must_deliver, superseded: false, spoiled: false };
                    self.feed(&buf, Some((&p, true)), mask, hist, rep, replay);
                }
                true
            }
        }
    }

    /// feed one produced packet to the lock-step receiver and judge attribution
    fn feed(&mut self, pkt: &[u8], pdu: Option<(&Pending, bool)>, mask: u32, hist: &dyn Fn() -> String, rep: &mut Report, replay: &dyn Fn() -> String) {
        if let Some(r) = &mut self.record {
            r.push(pkt.to_vec());
        }
        let dec = match &mut self.dec {
            Some(d) => d,
            None => return,
        };
        let res = dec_guard(dec, pkt);
        if trace_on() {
            eprintln!("  feed {} -> {}   (intended {:?}, final {})", crate::rng::hex(pkt), dec_res_str(&res), pdu.as_ref().map(|p| p.0.intended.map(|l| label_str(&l))), pdu.as_ref().map(|p| p.1).unwrap_or(false));
        }
        self.rx.observe(pkt, &res, if mask & M_C04 != 0 { RX_C04 } else { 0 }, "lockstep", rep, replay);
        let (p, is_final) = pdu.unwrap();
        let kind = Kind::from_word(u16::from_be_bytes([pkt[0], pkt[1]]));
        // nothing is demanded about packets of PDUs the sender mixed on one fragment id (C03's business)
        let c04 = mask & M_C04 != 0 && !p.spoiled;
        match &res {
            Err(_) => {
                rep.count("labelops.receiver-panic");
            }
            Ok(Ok((st, _))) => {
                let meta = match st {
                    DecapStatus::CompletedPkt(_, m) => Some(m.clone()),
                    DecapStatus::FragmentedPkt(m) => Some(m.clone()),
                    DecapStatus::Padding => None,
                };
                if let Some(m) = meta {
                    if c04 {
                        match p.intended {
                            None => rep.violation("C04", format!("delivered-for-unresolvable-reuse:{}", kind.name()), || format!("history [{}]: the receiver attributed label {} to a PDU sent with an explicit re-use label that has no preceding start/complete packet in this frame (packet {})", hist(), label_str(&m.label()), hex_short(pkt, 32)), replay),
                            Some(i) if !same_label(&i, &m.label()) => rep.violation("C04", format!("wrong-label:{}", kind.name()), || format!("history [{}]: the sender intended label {} but the receiver attributed the PDU to {} (packet {})", hist(), label_str(&i), label_str(&m.label()), hex_short(pkt, 32)), replay),
                            _ => {}
                        }
                    }
                }
                if let DecapStatus::CompletedPkt(b, m) = st {
                    self.deliveries += 1;
                    if c04 && (m.pdu_len() != p.pdu.len() || b[..m.pdu_len()] != p.pdu[..]) {
                        rep.count("labelops.delivered-pdu-differs");
                    }
                }
                if is_final && !matches!(st, DecapStatus::CompletedPkt(_, _)) && p.must_deliver && c04 {
                    rep.violation("C04", format!("not-delivered:{}", kind.name()), || format!("history [{}]: PDU sent with label {:?} was not delivered at its final packet: {}", hist(), p.intended.map(|l| label_str(&l)), dec_res_str(&res)), replay);
                }
            }
            Ok(Err(_)) => {
                let no_storage = self.keep_every > 0 && matches!(&res, Ok(Err((dvb_gse_rust::gse_decap::DecapError::ErrorMemory(_), _))));
                if p.spoiled {
                    self.rx_benign += 1;
                } else if p.must_deliver && !no_storage {
                    self.rx_unexpected += 1;
                } else {
                    self.rx_errors += 1;
                }
                if p.must_deliver && c04 {
                    rep.violation("C04", format!("not-delivered:{}", kind.name()), || format!("history [{}]: packet {} of a PDU sent with label {:?} was rejected: {}", hist(), hex_short(pkt, 32), p.intended.map(|l| label_str(&l)), dec_res_str(&res)), replay);
                }
            }
        }
        // give delivered storage back
        if let Ok(Ok((DecapStatus::CompletedPkt(b, _), _))) = res {
            let d = self.dec.as_mut().unwrap();
            if self.keep_every > 0 && self.deliveries % self.keep_every == 0 {
                drop(b);
            } else {
                let _ = d.provision_storage(b);
            }
        }
    }
}

pub fn random_op(rng: &mut Rng, with_fail_kinds: bool) -> Op {
    match rng.below(20) {
        0 => Op::Reset,
        1 => Op::Disable,
        2 => Op::Enable,
        3 => Op::EnableMax([0u8, 1, 2, 3, 5, 255][rng.below(6)]),
        4 | 5 => Op::Cont,
        6 => Op::ContStale,
        7 => Op::Accessors,
        8 => Op::AppDrain,
        9 => Op::SameId,
        _ => {
            let label = [0u8, 0, 1, 2, 2, 3, 4, 5, 0, 2, 7, 8, 8][rng.below(13)];
            let outcome = match rng.below(if with_fail_kinds { 14 } else { 11 }) {
                0..=5 => Outcome::Fits,
                6 | 7 => Outcome::Fragments,
                8 => Outcome::TooSmall,
                9 => Outcome::HeaderOnly,
                10 => Outcome::FragTail,
                11 => Outcome::TooSmall,
                12 => Outcome::BadPtype,
                _ => Outcome::TooLong,
            };
            let outcome = if rng.chance(1, 25) { [Outcome::Signalling, Outcome::SignallingPlain][rng.below(2)] } else { outcome };
            let outcome = if with_fail_kinds && rng.chance(1, 20) { [Outcome::TooLongByLabel, Outcome::BadFinalExt][rng.below(2)] } else { outcome };
            Op::Enc { label, outcome, ext: rng.chance(1, 6) }
        }
    }
}
