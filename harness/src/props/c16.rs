//! C16 — the receiver recovers after any history.

use crate::hostile::*;
use crate::refcrc::FastRef;
use crate::report::Report;
use crate::rng::{fnv, hex_short, mix, Rng};
use crate::train::build_train;
use crate::util::*;
use crate::{Cx, Gen, Property};
use dvb_gse_rust::crc::DefaultCrc;
use dvb_gse_rust::gse_decap::{DecapError, DecapMemoryError, DecapStatus};
use dvb_gse_rust::gse_encap::{EncapMetadata, Encapsulator};
use dvb_gse_rust::label::Label;

pub struct Prop;
pub static P: Prop = Prop;

impl Property for Prop {
    fn id(&self) -> &'static str {
        "C16"
    }
    fn rule(&self) -> &'static str {
        "histories: a receiver state (15 recipes (and, one history in 64, a 256-slot memory with an unfinished train on every fragment id) incl. unfinished trains on every slot, full / empty free list, remembered label, aliasing ids) is driven through a seeded prefix of 1..200 hostile buffers (random bytes, structured headers, mutated valid packets, wrong CRC / length / frag id, unfinished trains; one buffer in five continues with another hostile packet or random bytes after the packet), storage being provisioned at random points (one buffer, or until the memory reports that it is full); then: reset label memory; provision one buffer through the decapsulator or directly through its public memory field (Ok or 'free list full' both fine); probe 1 = valid complete packet with an explicit label, half of them with one optional extension header (exactly the probe's extensions must be reported; delivered buffer given back); probe 2 = valid fragmented PDU of 2..5 fragments on a seeded fragment id (half of them ids with an unfinished train or aliasing one; all 256 reachable) and label kind, built by the real encapsulator (or hand-made when the sender is unusable or would need more than 8 fragments), one in three with an optional header extension that must be reported with every fragment and with the PDU; one history in three ends with the SHADOW of probe 2's first fragment (same id, total length, type, label and size, other payload bytes); one receiver in three is constructed with max_pdu_frag = 8. A decap call of the prefix that panics is a violation (the sequence of calls cannot be completed: the caller is left without a decapsulator); non-trivial = conclusive with a prefix of at least 1 packet that was not all padding; fingerprint = hash(state, prefix bytes, probe parameters)."
    }
    fn gens(&self, cx: &Cx) -> Vec<Gen> {
        vec![Gen { name: "histories", count: cx.n(30_000, 2_000_000), exhaustive: false }]
    }
    fn run_key(&self, cx: &Cx, gen: &str, key: u64, rep: &mut Report) {
        let replay_s = format!("gen={} key={} seed={} profile={}", gen, key, cx.seed, cx.profile);
        let replay = || replay_s.clone();
        let mut rng = Rng::derive(cx.seed, fnv(gen.as_bytes()), key);
        let states = small_states();
        if states.is_empty() {
            rep.count("c16.no-state");
            return;
        }
        // one history in 64 starts from the heavy state: an unfinished train on every one of the 256 ids
        let st = if key % 64 == 63 {
            match all_ids_open_state() {
                Some(s) => s,
                None => {
                    rep.count("c16.heavy-state-not-built");
                    return;
                }
            }
        } else {
            states[(key as usize) % states.len()].clone()
        };
        // a zero-slot memory cannot hold any fragment context: only probe 1 (the complete packet) applies to it
        let zero_slots = st.slots == 0;
        let pool = Pool::new(&mut rng);
        // one receiver in three is built with max_pdu_frag = 8 (the probes never need more than 8 fragments)
        let max_pdu_frag = if key % 3 == 1 { 8 } else { 0 };
        let mut d = st.instantiate_ex(max_pdu_frag);
        // probe 2 is drawn now (from a forked generator) so that the history can end with its SHADOW: a first
        // fragment with the same fragment id, total length, type, label and size but other payload bytes
        let mut prng = rng.clone();
        let _ = prng.next();
        // probe 2: fragmented PDU on any fragment id and label kind
        // half of the probes land on a fragment id that is likely to have an unfinished train (the state's
        // open ids, the ids used by the hostile traffic pool) or on an id aliasing one of them
        let frag_id = if prng.chance(1, 2) {
            let mut busy: Vec<u8> = st.open_ids.clone();
            busy.extend([5u8, 1, 0, 9, 200, 77]);
            let b = busy[prng.below(busy.len())];
            match prng.below(3) {
                0 => b,
                1 => b.wrapping_add(st.slots as u8),
                _ => b.wrapping_sub(st.slots as u8),
            }
        } else {
            prng.byte()
        };
        let plen2 = 1 + prng.below(st.pdu_size.max(2) - 1).min(st.pdu_size.saturating_sub(1));
        let plen2 = plen2.min(st.pdu_size).max(1);
        let pdu2 = prng.bytes(plen2);
        let lk2 = prng.below(5);
        let label2 = gen_label(&mut prng, lk2);
        let nfrag = 2 + prng.below(4);
        let fr = FastRef::new();
        let mut cuts: Vec<usize> = (0..nfrag - 1).map(|_| prng.below(plen2 + 1)).collect();
        cuts.sort_unstable();
        // use the real encapsulator when it works, otherwise the hand-made train
        let mut enc = Encapsulator::new(DefaultCrc {});
        let meta = EncapMetadata::new(0x86DD, label2);
        let first_buf = 13 + cuts[0].min(plen2.saturating_sub(1));
        let mut r2 = prng.clone();
        // one probe in three carries an optional header extension (reported with every fragment and with the PDU)
        let probe2_ext: Option<Vec<dvb_gse_rust::header_extension::Extension>> = if prng.chance(1, 3) { dvb_gse_rust::header_extension::Extension::new(0x0200 | prng.byte() as u16, &[0xE1, 0xE2]).ok().map(|e| vec![e]) } else { None };
        let probe2_ext_ids: Vec<u16> = probe2_ext.as_ref().map(|v| v.iter().map(|e| e.id()).collect()).unwrap_or_default();
        let first_buf = first_buf + if probe2_ext.is_some() { 4 } else { 0 };
        let built = build_train(&mut enc, &pdu2, frag_id, meta, probe2_ext.clone(), |i| if i == 0 { first_buf } else { 8 + r2.below(plen2 + 8) }, 64);
        let pkts: Vec<Vec<u8>> = match built {
            Ok(t) if t.complete && t.pkts.len() >= 2 && t.pkts.len() <= 8 => {
                rep.count("c16.probe2-from-encapsulator");
                t.pkts
            }
            _ => {
                rep.count("c16.probe2-hand-made");
                mk_train(&fr, lt_of_label(&label2), &label_bytes(&label2), frag_id, 0x86DD, &pdu2, &cuts)
            }
        };
        // (the hand-made train has no extension)
        let probe2_ext_ids: Vec<u16> = if pkts.len() >= 2 && crate::wire::parse(&pkts[0], &crate::wire::MandTable::none()).map(|p| p.exts.is_empty()).unwrap_or(true) { vec![] } else { probe2_ext_ids };
        let nmax = if rng.chance(1, 10) { 200 } else { 40 };
        let n = 1 + rng.below(nmax);
        let mut h = 0u64;
        let mut conclusive = true;
        for _ in 0..n {
            let mut p = hostile_packet(&mut rng, &pool, &st);
            // one buffer in five holds more than the packet: another hostile packet or random bytes follow it
            // (what a frame walker hands to decap)
            match rng.below(10) {
                0 => {
                    let q = hostile_packet(&mut rng, &pool, &st);
                    p.extend_from_slice(&q);
                }
                1 => {
                    let k = 1 + rng.below(12);
                    let t = rng.bytes(k);
                    p.extend_from_slice(&t);
                }
                _ => {}
            }
            h = mix(h, fnv(&p));
            rep.eval();
            match dec_guard(&mut d, &p) {
                Err(msg) => {
                    // "after ANY sequence of decap calls": a call that does not return ends the sequence and
                    // leaves the caller without a usable decapsulator
                    rep.violation("C16", format!("history-call-panicked:{}:{}", crate::mon::panic_class(&msg), st.name), || format!("state {}: decap panicked during the hostile history on {} ({} bytes): {}", st.name, hex_short(&p, 48), p.len(), msg), &replay);
                    conclusive = false;
                    break;
                }
                Ok(Ok((DecapStatus::CompletedPkt(b, _), _))) => {
                    // sometimes the application keeps the buffer (free list drains)
                    if rng.chance(2, 3) {
                        let _ = d.provision_storage(b);
                    }
                }
                Ok(Err((DecapError::ErrorMemory(DecapMemoryError::StorageOverflow(b)), _))) | Ok(Err((DecapError::ErrorMemory(DecapMemoryError::BufferTooSmall(b)), _))) => {
                    if rng.chance(1, 2) {
                        let _ = d.provision_storage(b);
                    }
                }
                _ => {}
            }
            if rng.chance(1, 30) {
                // the application tops the free list up until the memory reports that it is full
                for _ in 0..600 {
                    if d.provision_storage(vec![0u8; st.pdu_size].into_boxed_slice()).is_err() {
                        break;
                    }
                }
                rep.count("c16.free-list-filled-up");
            }
            if rng.chance(1, 12) {
                if rng.chance(1, 2) {
                    let _ = d.provision_storage(vec![0u8; st.pdu_size].into_boxed_slice());
                } else {
                    use dvb_gse_rust::gse_decap::GseDecapMemory;
                    let _ = d.memory.provision_storage(vec![0u8; st.pdu_size].into_boxed_slice());
                }
            }
        }
        if !conclusive {
            rep.count("c16.inconclusive-prefix-panic");
            return;
        }
        rep.count("c16.conclusive");
        if rng.chance(1, 3) {
            // the history ends with the shadow of probe 2's first fragment (same header fields and size, other payload)
            let mut shadow = pkts[0].clone();
            let l = shadow.len();
            if l > 16 {
                for b in shadow[l - 3..].iter_mut() {
                    *b ^= 0x5A;
                }
                rep.eval();
                if dec_guard(&mut d, &shadow).is_err() {
                    rep.violation("C16", format!("history-call-panicked:shadow:{}", st.name), || "decap panicked on the shadow first fragment".to_string(), &replay);
                    return;
                }
                rep.count("c16.shadow-first-fragment");
            }
        }
        // ---- recovery protocol
        d.reset_last_label();
        // the caller makes one buffer available, through the decapsulator or directly through its (public) memory
        if rng.chance(1, 2) {
            let _ = d.provision_storage(vec![0u8; st.pdu_size].into_boxed_slice());
        } else {
            use dvb_gse_rust::gse_decap::GseDecapMemory;
            let _ = d.memory.provision_storage(vec![0u8; st.pdu_size].into_boxed_slice());
            rep.count("c16.provisioned-through-memory-field");
        }
        let cls = st.name;
        // probe 1: complete packet with explicit label, PDU within the configured size
        let plen1 = rng.below(st.pdu_size + 1);
        let pdu1 = rng.bytes(plen1);
        let lk = rng.below(4);
        let label1 = gen_label(&mut rng, lk);
        let lb = label_bytes(&label1);
        // half of the probes carry one optional extension header: exactly that one must be reported (nothing the
        // history left behind), and none when the probe has none
        let probe_ext: Vec<crate::wire::ExtEntry> = if rng.chance(1, 2) { vec![crate::wire::ExtEntry { id: 0x0200 | rng.byte() as u16, data: rng.bytes(2) }] } else { vec![] };
        let pk1 = crate::wire::serialise(&crate::wire::Fields { kind: crate::wire::Kind::Complete, lt: lt_of_label(&label1), frag_id: 0, total_len: 0, ptype: 0x0800, label: &lb, exts: &probe_ext, final_ext: false, payload: &pdu1, crc: 0 });
        rep.eval();
        let r1 = dec_guard(&mut d, &pk1);
        let ext_ok = |m: &dvb_gse_rust::gse_decap::DecapMetadata| -> bool {
            let got: Vec<(u16, usize)> = m.extensions().iter().map(|e| (e.id(), e.len() - 2)).collect();
            let want: Vec<(u16, usize)> = probe_ext.iter().map(|e| (e.id, e.data.len())).collect();
            got == want
        };
        match &r1 {
            Ok(Ok((DecapStatus::CompletedPkt(b, m), c))) if *c == pk1.len() && m.pdu_len() == plen1 && b[..plen1] == pdu1[..] && m.label() == label1 && m.protocol_type() == 0x0800 && ext_ok(m) => {}
            other => {
                rep.violation("C16", format!("probe1-complete-packet:{}", cls), || format!("after a {}-packet hostile prefix in state {}, reset + one provisioned buffer, the valid complete packet {} was not delivered correctly: {}", n, st.name, hex_short(&pk1, 40), dec_res_str(other)), &replay);
                return;
            }
        }
        if let Ok(Ok((DecapStatus::CompletedPkt(b, _), _))) = r1 {
            if rng.chance(1, 2) {
                let _ = d.provision_storage(b);
            } else {
                use dvb_gse_rust::gse_decap::GseDecapMemory;
                let _ = d.memory.provision_storage(b);
            }
        }
        if zero_slots {
            rep.count("c16.recovered-zero-slots");
            rep.nontrivial(mix(mix(h, fnv(st.name.as_bytes())), 0x2E20));
            return;
        }
        // probe 2 (drawn before the history, see above)
        let np = pkts.len();
        for (i, p) in pkts.iter().enumerate() {
            rep.eval();
            let r = dec_guard(&mut d, p);
            let last = i + 1 == np;
            let ok = match &r {
                Ok(Ok((DecapStatus::FragmentedPkt(m), c))) if !last => *c == p.len() && m.label() == label2 && m.extensions().iter().map(|e| e.id()).collect::<Vec<_>>() == probe2_ext_ids,
                Ok(Ok((DecapStatus::CompletedPkt(b, m), c))) if last => *c == p.len() && m.pdu_len() == plen2 && b[..plen2] == pdu2[..] && m.label() == label2 && m.protocol_type() == 0x86DD && m.extensions().iter().map(|e| e.id()).collect::<Vec<_>>() == probe2_ext_ids,
                _ => false,
            };
            if !ok {
                rep.violation("C16", format!("probe2-fragmented-pdu:{}", cls), || format!("after a {}-packet hostile prefix in state {}, reset, one provisioned buffer and a delivered complete packet, fragment {}/{} ({}) of a valid PDU ({}B, frag id {}, label {}) was not handled correctly: {}", n, st.name, i + 1, np, hex_short(p, 32), plen2, frag_id, label_str(&label2), dec_res_str(&r)), &replay);
                return;
            }
        }
        rep.count("c16.recovered");
        rep.nontrivial(mix(mix(h, fnv(st.name.as_bytes())), mix(frag_id as u64, plen2 as u64)));
        if key < 3 {
            rep.sample(|| format!("history: state {}, {} hostile packets, then reset + provision -> complete packet ({}B, {}) and fragmented PDU ({}B, id {}, {}, {} fragments) delivered intact", st.name, n, plen1, label_str(&label1), plen2, frag_id, label_str(&label2), np));
        }
    }
    fn floors(&self, _cx: &Cx, rep: &mut Report) {
        let c = rep.get("c16.conclusive");
        let i = rep.get("c16.inconclusive-prefix-panic");
        if c == 0 || (c * 100) < (c + i) * 95 {
            rep.floors_missing.push(format!("C16 floor: only {} of {} histories conclusive", c, c + i));
        }
    }
}
