//! C05 — decap (and the label / fragment-id peek) is total on arbitrary bytes.

use crate::hostile::*;
use crate::mon::{guard, panic_class};
use crate::report::Report;
use crate::rng::{fnv, hex_short, mix, Rng};
use crate::rxspec::{RxSpec, RX_C05};
use crate::util::*;
use crate::{Cx, Gen, Property};
use dvb_gse_rust::gse_decap::DecapStatus;

pub struct Prop;
pub static P: Prop = Prop;

/// one input on a fresh instance of `st`
fn one(st: &RxState, input: &[u8], class: &str, rep: &mut Report, replay: &dyn Fn() -> String) {
    let mut d = st.instantiate();
    rep.eval();
    // peek first (takes &self: cannot change the state)
    if let Err(p) = guard(|| {
        let _ = d.get_label_or_frag_id(input);
    }) {
        rep.violation("C05", format!("peek-panic:{}:{}", panic_class(&p), class), || format!("get_label_or_frag_id panicked on {} ({} bytes) in state {}: {}", hex_short(input, 48), input.len(), st.name, p), replay);
    }
    let res = dec_guard(&mut d, input);
    let mut rx = RxSpec::new(st.table.clone());
    let cls = format!("{}:{}", class, st.name);
    rx.observe(input, &res, RX_C05, &cls, rep, replay);
    match &res {
        Ok(Ok((DecapStatus::Padding, _))) => rep.count("c05.padding"),
        Ok(Ok(_)) => rep.count("c05.accepted"),
        Ok(Err(_)) => rep.count("c05.rejected"),
        Err(_) => rep.count("c05.panic"),
    }
}

impl Property for Prop {
    fn id(&self) -> &'static str {
        "C05"
    }
    fn rule(&self) -> &'static str {
        "short: every byte string of length 0..=2 (quick) / 0..=3 (thorough) in each of 15 receiver states (empty / one / full free list, zero slots, open context on the probed id / an aliasing id / every slot, context nearly full, storage smaller than fragments, remembered 3- and 6-byte label, manager knowing all / some / no mandatory ids (incl. ids declared with 253 / 254 / 255 data bytes, final and non-final), 256 slots, every slot open with the free list refilled); headers: every 16-bit header word x buffer length in {2,3,4,announced-1,announced,announced+1,announced+7} x structured tails (frag ids matching / aliasing / unknown, total length 0/1/2/0xFFFF, extension ids of every H-LEN, mandatory known/unknown ids, zero labels, zeros, FF, random), states rotated; mutated: packets of valid hand-made trains with bit flips, truncations, length-field edits, field splices; random: buffers up to 8 KiB; histories: sequences of 1..60 hostile packets on one decapsulator (state evolves, storage re-provisioned at random with buffers of 1x / 2x / 5x the configured size, through the decapsulator or its public memory field), tightfit: complete packets and first fragments whose PDU part is 3 below .. 4 above the storage size (every size 0..=63) x label kinds x {no, optional, non-final mandatory, final mandatory with 0 / 1 / 3 data bytes} extensions; allopen: a reassembly open on every one of the 256 fragment ids at once (256 / 300 / 255-slot memories), continued and finished; memfaults: valid and rejected trains on a memory wrapper that refuses the i-th trait operation with each documented error, for every i; incl. a state with 70000-byte storage and a context near 65535 bytes. Every decap / peek call is an evaluation; fingerprint = hash(state, input bytes); non-trivial = input of at least 2 bytes that is not padding (reaches a packet-kind handler)."
    }
    fn gens(&self, cx: &Cx) -> Vec<Gen> {
        vec![
            Gen { name: "short", count: if cx.quick() { 257 } else { 257 + 65536 }, exhaustive: true },
            Gen { name: "headers", count: 65536 / 16, exhaustive: true },
            Gen { name: "mutated", count: cx.n(40_000, 2_000_000), exhaustive: false },
            Gen { name: "histories", count: cx.n(20_000, 1_000_000), exhaustive: false },
            Gen { name: "bighist", count: cx.n(64, 2_000), exhaustive: false },
            Gen { name: "allopen", count: 4, exhaustive: true },
            Gen { name: "tightfit", count: 64, exhaustive: true },
            Gen { name: "memfaults", count: cx.n(3_000, 200_000), exhaustive: false },
        ]
    }
    fn run_key(&self, cx: &Cx, gen: &str, key: u64, rep: &mut Report) {
        let replay_s = format!("gen={} key={} seed={} profile={}", gen, key, cx.seed, cx.profile);
        let replay = || replay_s.clone();
        let mut rng = Rng::derive(cx.seed, fnv(gen.as_bytes()), key);
        let states = small_states();
        if gen == "short" && key == 0 {
            rep.count_n("c05.states-built", states.len() as u64);
        }
        match gen {
            "short" => {
                // key 0: lengths 0 and 1; keys 1..=256: all 2-byte strings with first byte key-1;
                // keys 257..: all 3-byte strings with first two bytes key-257
                for st in &states {
                    if crate::expired() {
                        return;
                    }
                    if key == 0 {
                        one(st, &[], "len0", rep, &replay);
                        for b in 0..=255u8 {
                            one(st, &[b], "len1", rep, &replay);
                        }
                    } else if key <= 256 {
                        for b in 0..=255u8 {
                            let inp = [(key - 1) as u8, b];
                            one(st, &inp, "len2", rep, &replay);
                            if inp[0] & 0xF0 != 0 {
                                rep.nontrivial(mix(fnv(st.name.as_bytes()), (inp[0] as u64) << 8 | b as u64));
                            }
                        }
                    } else {
                        let w = (key - 257) as u16;
                        for b in 0..=255u8 {
                            let inp = [(w >> 8) as u8, w as u8, b];
                            one(st, &inp, "len3", rep, &replay);
                            if inp[0] & 0xF0 != 0 {
                                rep.nontrivial(mix(fnv(st.name.as_bytes()), (w as u64) << 8 | b as u64 | 1 << 40));
                            }
                        }
                    }
                }
                if key == 0xC1 {
                    rep.sample(|| "short: all 256 two-byte inputs c0 xx in each receiver state -> Ok/Err, consumed within bounds".into());
                }
            }
            "headers" => {
                for lo in 0..16u64 {
                    if crate::expired() {
                        return;
                    }
                    let w = (key * 16 + lo) as u16;
                    let ann = (w & 0x0FFF) as usize + 2;
                    let lens = [2usize, 3, 4, ann.saturating_sub(1), ann, ann + 1, ann + 7];
                    for (li, n) in lens.iter().enumerate() {
                        if *n < 2 {
                            continue;
                        }
                        // rotate states over (word, length) so that every state sees every length class
                        let reps = if cx.quick() { 2 } else { 6 };
                        for r in 0..reps {
                            let st = &states[(w as usize + li * 5 + r * 3) % states.len()];
                            let mut p = w.to_be_bytes().to_vec();
                            p.extend(structured_tail(&mut rng, w, n - 2, st));
                            one(st, &p, "header", rep, &replay);
                            if w & 0xF000 != 0 {
                                rep.nontrivial(mix(fnv(st.name.as_bytes()), fnv(&p)));
                            }
                            if w == 0xE005 && li == 4 && r == 0 {
                                rep.sample(|| format!("headers: word 0xe005, buffer == announced length, state {} -> {}", st.name, hex_short(&p, 24)));
                            }
                        }
                    }
                }
            }
            "mutated" => {
                let pool = Pool::new(&mut rng);
                let st = &states[rng.below(states.len())];
                for _ in 0..8 {
                    let p = hostile_packet(&mut rng, &pool, st);
                    one(st, &p, "mutated", rep, &replay);
                    if p.len() >= 2 && p[0] & 0xF0 != 0 {
                        rep.nontrivial(mix(fnv(st.name.as_bytes()), fnv(&p)));
                    }
                }
            }
            "histories" | "bighist" => {
                let pool = Pool::new(&mut rng);
                let st = if gen == "bighist" {
                    match big_state() {
                        Some(s) => s,
                        None => {
                            rep.count("c05.big-state-not-built");
                            return;
                        }
                    }
                } else {
                    states[rng.below(states.len())].clone()
                };
                let mut d = st.instantiate();
                let mut rx = RxSpec::new(st.table.clone());
                let n = 1 + rng.below(60);
                let mut hist: Vec<Vec<u8>> = Vec::new();
                // in the big state: long fragments towards / beyond 65535 received bytes
                for i in 0..n {
                    let p = if gen == "bighist" && rng.chance(2, 3) {
                        let plen = [1usize, 100, 535, 536, 600, 4000, 4092][rng.below(7)];
                        if rng.chance(1, 4) {
                            mk_end(5, &vec![0xAB; plen.min(4088)], rng.next() as u32)
                        } else {
                            mk_inter(5, &vec![0xCD; plen])
                        }
                    } else {
                        hostile_packet(&mut rng, &pool, &st)
                    };
                    rep.eval();
                    if let Err(pm) = guard(|| {
                        let _ = d.get_label_or_frag_id(&p);
                    }) {
                        rep.violation("C05", format!("peek-panic:{}:history", panic_class(&pm)), || format!("get_label_or_frag_id panicked on {}: {}", hex_short(&p, 48), pm), &replay);
                    }
                    let res = dec_guard(&mut d, &p);
                    hist.push(p.clone());
                    let h = &hist;
                    let cls = format!("history:{}", st.name);
                    let rp = || format!("{} step={}", replay_s, i);
                    if res.is_err() {
                        let tail: Vec<String> = h.iter().rev().take(4).rev().map(|x| hex_short(x, 40)).collect();
                        rep.notes.push(format!("panic history tail (state {}): {}", st.name, tail.join(" | ")));
                        rep.notes.truncate(6);
                    }
                    rx.observe(&p, &res, RX_C05, &cls, rep, &rp);
                    match res {
                        Err(_) => {
                            rep.count("c05.panic");
                            break;
                        }
                        Ok(Ok((DecapStatus::CompletedPkt(b, _), _))) => {
                            rep.count("c05.accepted");
                            let _ = d.provision_storage(b);
                        }
                        Ok(Ok(_)) => rep.count("c05.accepted"),
                        Ok(Err((e, _))) => {
                            rep.count("c05.rejected");
                            // a buffer handed back inside the error is returned to the receiver
                            use dvb_gse_rust::gse_decap::{DecapError, DecapMemoryError};
                            if let DecapError::ErrorMemory(DecapMemoryError::StorageOverflow(b)) | DecapError::ErrorMemory(DecapMemoryError::BufferTooSmall(b)) = e {
                                let _ = d.provision_storage(b);
                            }
                        }
                    }
                    if rng.chance(1, 6) {
                        // buffers of the configured size, and now and then larger ones, through the decapsulator or
                        // directly through its public memory field (the pool then holds buffers of different sizes)
                        let sz = st.pdu_size.max(1) * [1usize, 1, 1, 2, 5][rng.below(5)];
                        if rng.chance(1, 2) {
                            let _ = d.provision_storage(vec![0u8; sz].into_boxed_slice());
                        } else {
                            use dvb_gse_rust::gse_decap::GseDecapMemory;
                            let _ = d.memory.provision_storage(vec![0u8; sz].into_boxed_slice());
                        }
                    }
                    if rng.chance(1, 20) {
                        d.reset_last_label();
                    }
                    if p.len() >= 2 && p[0] & 0xF0 != 0 {
                        rep.nontrivial(mix(mix(key, i as u64), fnv(&p)));
                    }
                }
                rep.count("c05.histories");
            }
            "tightfit" => {
                // complete packets and first fragments whose PDU part is a few bytes below / at / above the storage
                // size (key = storage size 0..=63): no label / 3 / 6 bytes; no extension, an optional one, a non-final
                // mandatory one with data, a FINAL mandatory one with 0..3 data bytes (no type field follows it)
                use crate::wire::{serialise, ExtEntry, Fields, Kind, Mand, MandTable};
                let storage = key as usize;
                let mut table = MandTable::none();
                table.t[0x41] = Mand::Final(0);
                table.t[0x42] = Mand::Final(1);
                table.t[0x43] = Mand::Final(3);
                table.t[0x44] = Mand::NonFinal(2);
                let chains: Vec<(Vec<ExtEntry>, bool, u16)> = vec![
                    (vec![], false, 0x0800),
                    (vec![ExtEntry { id: 0x0233, data: vec![1, 2] }], false, 0x0800),
                    (vec![ExtEntry { id: 0x0044, data: vec![1, 2] }], false, 0x0800),
                    (vec![ExtEntry { id: 0x0041, data: vec![] }], true, 0x0041),
                    (vec![ExtEntry { id: 0x0042, data: vec![9] }], true, 0x0042),
                    (vec![ExtEntry { id: 0x0043, data: vec![9, 8, 7] }], true, 0x0043),
                    (vec![ExtEntry { id: 0x0233, data: vec![1, 2] }, ExtEntry { id: 0x0043, data: vec![9, 8, 7] }], true, 0x0043),
                ];
                for (ci, (exts, fin, pt)) in chains.iter().enumerate() {
                    for lt in 0..3u8 {
                        let lab = [0xA1u8, 2, 3, 4, 5, 6];
                        let wl: &[u8] = match lt {
                            0 => &lab[..],
                            1 => &lab[..3],
                            _ => &[],
                        };
                        for d in -3i64..=4 {
                            let plen = storage as i64 + d;
                            if plen < 0 {
                                continue;
                            }
                            let pdu = vec![0x5Au8; plen as usize];
                            for kind in [Kind::Complete, Kind::First] {
                                let total = (2 + wl.len() + plen as usize + 10) as u16;
                                let p = serialise(&Fields { kind, lt, frag_id: 5, total_len: total, ptype: *pt, label: wl, exts, final_ext: *fin, payload: &pdu, crc: 0 });
                                for nbuf in [1usize, 2] {
                                    let mut d = plain_dec(2, storage, nbuf, storage, table.clone());
                                    let mut rx = RxSpec::new(table.clone());
                                    rep.eval();
                                    let res = dec_guard(&mut d, &p);
                                    rx.observe(&p, &res, RX_C05, "tight-fit", rep, &replay);
                                    match res {
                                        Err(_) => rep.count("c05.panic"),
                                        Ok(Ok(_)) => rep.count("c05.accepted"),
                                        Ok(Err(_)) => rep.count("c05.rejected"),
                                    }
                                }
                                rep.nontrivial(mix(mix(0x71F7, key), (ci * 1000 + lt as usize * 100 + (d + 3) as usize * 2 + (kind == Kind::First) as usize) as u64));
                            }
                        }
                    }
                }
            }
            "allopen" => {
                // a reassembly open on EVERY fragment id at once (256-slot and 300-slot memories with enough storage),
                // then every train is continued and finished: valid traffic, no call may panic
                let slots = [256usize, 300, 256, 255][key as usize];
                let order_rev = key == 2;
                let mut d = plain_dec(slots, 16, 258, 16, crate::wire::MandTable::none());
                let mut rx = RxSpec::new(crate::wire::MandTable::none());
                let fr = crate::refcrc::FastRef::new();
                let trains: Vec<Vec<Vec<u8>>> = (0..=255u8).map(|id| crate::hostile::mk_train(&fr, 2, &[], id, 0x0800, &[id, id ^ 0x55, 3, 4, 5, 6, 7, 8], &[3, 6])).collect();
                for step in 0..3 {
                    for k in 0..256usize {
                        let id = if order_rev { 255 - k } else { k };
                        let p = &trains[id][step];
                        rep.eval();
                        let res = dec_guard(&mut d, p);
                        rx.observe(p, &res, RX_C05, "all-ids-open", rep, &replay);
                        match res {
                            Err(_) => {
                                rep.count("c05.panic");
                                return;
                            }
                            Ok(Ok((DecapStatus::CompletedPkt(b, _), _))) => {
                                rep.count("c05.allopen-delivered");
                                let _ = d.provision_storage(b);
                            }
                            _ => {}
                        }
                        rep.nontrivial(mix(mix(0xA110, key), (step * 256 + k) as u64));
                    }
                }
            }
            "memfaults" => {
                // a memory behind the trait that refuses ONE operation with an error the trait documents for it
                // (a contract-respecting custom memory may do that at any time): decap must still return
                use crate::mon::{Fault, RecCrc};
                let slots = 1 + rng.below(3);
                let fr = crate::refcrc::FastRef::new();
                let id = rng.byte();
                let pdu_n = 6 + rng.below(40);
                let pdu = rng.bytes(pdu_n);
                let lt = rng.below(3) as u8;
                let lab = [0xA1u8, 2, 3, 4, 5, 6];
                let wl: &[u8] = match lt {
                    0 => &lab[..],
                    1 => &lab[..3],
                    _ => &[],
                };
                let c1 = 1 + rng.below(pdu.len() / 2);
                let c2 = c1 + 1 + rng.below(pdu.len() - c1 - 1);
                let mut pkts = crate::hostile::mk_train(&fr, lt, wl, id, 0x0800, &pdu, &[c1, c2]);
                pkts.push(crate::hostile::mk_complete(lt, wl, 0x0800, &pdu[..4]));
                // bad CRC copy of the end packet and an oversize intermediate: the rejection paths give buffers back
                let mut bad = pkts[2].clone();
                let l = bad.len();
                bad[l - 1] ^= 0xFF;
                for variant in 0..3 {
                    let seq: Vec<&Vec<u8>> = match variant {
                        0 => vec![&pkts[0], &pkts[1], &pkts[2], &pkts[3]],
                        1 => vec![&pkts[0], &pkts[1], &bad, &pkts[3]],
                        _ => vec![&pkts[3], &pkts[0], &pkts[0], &pkts[1], &pkts[2]],
                    };
                    // count the operations of the undisturbed run
                    let mk = || crate::util::mon_dec(slots, 64, &[64, 64, 64], crate::wire::MandTable::none(), RecCrc::off());
                    let mut probe = mk();
                    probe.memory.arm(None);
                    for p in &seq {
                        if let Ok(Ok((DecapStatus::CompletedPkt(b, _), _))) = dec_guard(&mut probe, p) {
                            let _ = probe.provision_storage(b);
                        }
                    }
                    let nops = probe.memory.ops;
                    for i in 0..nops {
                        for fault in [Fault::Underflow, Fault::Overflow, Fault::TooSmall, Fault::UndefinedId, Fault::Corrupted] {
                            let mut d = mk();
                            d.memory.arm(Some((i, fault.clone())));
                            for p in &seq {
                                rep.eval();
                                let res = dec_guard(&mut d, p);
                                match &res {
                                    Err(pm) => {
                                        rep.violation("C05", format!("decap-panic:{}:memory-refusal:{:?}", panic_class(pm), fault), || format!("memory operation {} of {} refused with {:?}: decap panicked on {}: {}", i, nops, fault, hex_short(p, 40), pm), &replay);
                                        break;
                                    }
                                    Ok(r) => {
                                        let consumed = match r {
                                            Ok((_, n)) => *n,
                                            Err((_, n)) => *n,
                                        };
                                        if consumed > p.len() || consumed < 2.min(p.len()) {
                                            rep.violation("C05", format!("consumed-out-of-bounds:memory-refusal:{:?}", fault), || format!("memory operation {} refused with {:?}: decap consumed {} of {} bytes", i, fault, consumed, p.len()), &replay);
                                        }
                                    }
                                }
                                if let Ok(Ok((DecapStatus::CompletedPkt(b, _), _))) = res {
                                    let _ = d.provision_storage(b);
                                }
                            }
                            if d.memory.fired {
                                rep.count("c05.memory-refusals-injected");
                            }
                        }
                    }
                }
                rep.nontrivial(mix(0xFA17, key));
            }
            _ => {}
        }
    }
    fn floors(&self, _cx: &Cx, rep: &mut Report) {
        if rep.get("c05.states-built") < 15 {
            rep.floors_missing.push(format!("C05 floor: only {} of 15 receiver states could be built", rep.get("c05.states-built")));
        }
        for k in ["c05.accepted", "c05.rejected", "c05.padding"] {
            if rep.get(k) == 0 {
                rep.floors_missing.push(format!("C05 floor: counter {} is 0", k));
            }
        }
    }
}
