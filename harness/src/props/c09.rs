//! C09 — see sendwl.rs (shared sender-side workload) and sender.rs (oracles).
use super::sendwl;
use crate::report::Report;
use crate::sender::*;
use crate::{Cx, Gen, Property};

pub struct Prop;
pub static P: Prop = Prop;

impl Property for Prop {
    fn id(&self) -> &'static str {
        "C09"
    }
    fn rule(&self) -> &'static str {
        concat!("every call is non-trivial for C09 (totality is judged on all of them; atomicity on those returning Err: buffer compare, state compare, behavioural twin). Generators: ", "see coverage.generators")
    }
    fn gens(&self, cx: &Cx) -> Vec<Gen> {
        sendwl::gens(cx)
    }
    fn run_key(&self, cx: &Cx, gen: &str, key: u64, rep: &mut Report) {
        // C06's own workload also evaluates the other sender oracles (reported as observations only)
        sendwl::run_key(cx, O_C09 | if "C09" == "C18" { 0 } else { O_C06 | O_C11 }, gen, key, rep)
    }
    fn floors(&self, _cx: &Cx, rep: &mut Report) {
        for k in "sender.ok,sender.err.ErrorSizeBuffer,sender.err.ErrorPduLength,sender.err.ErrorProtocolType,sender.err.ErrorInvalidLabel".split(',') {
            if rep.get(k) == 0 {
                rep.floors_missing.push(format!("C09 floor: counter {} is 0", k));
            }
        }
        rep.notes.push(sendwl::RULE.to_string());
    }
}
