//! C17 — the bundled fragment memory honours the memory-trait contract (bag model).

use crate::mon::{guard, panic_class};
use crate::report::Report;
use crate::rng::{fnv, mix, Rng};
use crate::{Cx, Gen, Property};
use dvb_gse_rust::gse_decap::gse_decap_memory::MemoryContext;
use dvb_gse_rust::gse_decap::{DecapContext, DecapMemoryError, GseDecapMemory, SimpleGseMemory};
use dvb_gse_rust::label::Label;

pub struct Prop;
pub static P: Prop = Prop;

const PDU_SIZE: usize = 8;

#[derive(Clone, Copy, Debug, PartialEq, Eq)]
enum Op {
    /// provision a buffer of PDU_SIZE + delta - 1 bytes (delta 0: too small, 1: exact, 2: larger)
    Provision(u8),
    NewPdu,
    NewFrag(u8),
    TakeFrag(u8),
    /// save the oldest held context
    SaveHeld,
    /// save a held context under a different frag id of the same / another slot (caller's choice)
    SaveHeldAs(u8),
    /// save a context together with a buffer that never went through provision_storage and is SHORTER than the
    /// configured size (the trait lets the caller save any buffer)
    SaveForeign(u8),
}

fn op_str(o: &Op) -> String {
    match o {
        Op::Provision(d) => format!("provision({}B)", PDU_SIZE + *d as usize - 1),
        Op::NewPdu => "new_pdu".into(),
        Op::NewFrag(i) => format!("new_frag(id {})", i),
        Op::TakeFrag(i) => format!("take_frag(id {})", i),
        Op::SaveHeld => "save_frag(held)".into(),
        Op::SaveHeldAs(i) => format!("save_frag(held as id {})", i),
        Op::SaveForeign(i) => format!("save_frag(new context id {}, foreign {}-byte buffer)", i, PDU_SIZE - 3),
    }
}

fn ids(slots: usize) -> Vec<u8> {
    let mut v = if slots >= 255 { vec![0u8, 1, 254, 255, 128] } else { vec![0u8, 1, slots as u8, slots as u8 + 1, 255] };
    v.dedup();
    v
}

fn alphabet(slots: usize) -> Vec<Op> {
    let mut v = vec![Op::Provision(0), Op::Provision(1), Op::Provision(2), Op::NewPdu, Op::SaveHeld];
    for i in ids(slots) {
        v.push(Op::NewFrag(i));
        v.push(Op::TakeFrag(i));
    }
    v
}

/// buffers carry a tag: every byte = tag
fn mk_buf(tag: u8, len: usize) -> Box<[u8]> {
    vec![tag; len].into_boxed_slice()
}
fn tag_of(b: &[u8]) -> Option<u8> {
    if b.is_empty() {
        return None;
    }
    let t = b[0];
    if b.iter().all(|x| *x == t) {
        Some(t)
    } else {
        None
    }
}

fn ctx(id: u8, serial: u16) -> DecapContext {
    // two contexts in three carry header extensions (every field of a context must come back as it was saved)
    use dvb_gse_rust::header_extension::Extension;
    let mut exts = Vec::new();
    if serial % 3 != 0 {
        if let Ok(e) = Extension::new(0x0200 | (serial & 0xFF), &[serial as u8, id]) {
            exts.push(e);
        }
        if serial % 3 == 2 {
            if let Ok(e) = Extension::new(0x0100 | (id as u16), &[]) {
                exts.push(e);
            }
        }
    }
    // contexts come in groups of four that agree on label, protocol type and total length and differ in the received
    // length, the re-use flag and the extensions: "what was saved last" must come back, not a look-alike
    let g = serial / 4;
    DecapContext::new(Label::ThreeBytesLabel([id, g as u8, (g >> 8) as u8]), 0x0800 + g, id, 100 + g, serial, serial % 2 == 1, exts)
}

#[derive(Clone)]
struct Model {
    slots: usize,
    cap: usize,
    free: Vec<u8>,
    /// per slot: (context, buffer tag)
    saved: Vec<Option<(DecapContext, u8)>>,
}

struct Sys {
    mem: SimpleGseMemory,
    model: Model,
    held: Vec<(DecapContext, Box<[u8]>)>,
    next_tag: u8,
    serial: u16,
    lens: Vec<usize>,
}

/// calibrate the free-list capacity of a fresh memory
fn calibrate(slots: usize) -> usize {
    let mut m = SimpleGseMemory::new(slots, PDU_SIZE, 0, 0);
    let mut k = 0;
    while k < slots + 64 && m.provision_storage(mk_buf(1, PDU_SIZE)).is_ok() {
        k += 1;
    }
    k
}

impl Sys {
    fn new(slots: usize, cap: usize) -> Self {
        Sys { mem: SimpleGseMemory::new(slots, PDU_SIZE, 0, 0), model: Model { slots, cap, free: vec![], saved: vec![None; slots] }, held: vec![], next_tag: 1, serial: 0, lens: vec![0; 256] }
    }

    /// a tag that no live buffer carries (tags are 8 bits: in long sequences they are recycled, never shared)
    fn fresh_tag(&mut self) -> Option<u8> {
        for _ in 0..255 {
            let t = self.next_tag;
            self.next_tag = self.next_tag.wrapping_add(1).max(1);
            let live = self.model.free.contains(&t) || self.model.saved.iter().any(|s| matches!(s, Some((_, bt)) if *bt == t)) || self.held.iter().any(|(_, b)| tag_of(b) == Some(t));
            if !live {
                return Some(t);
            }
        }
        None
    }

    /// apply one operation to memory and model; Err(description) on disagreement
    fn apply(&mut self, op: &Op) -> Result<(), (String, String)> {
        let slots = self.model.slots;
        match op {
            Op::Provision(d) => {
                let len = PDU_SIZE + *d as usize - 1;
                let tag = match self.fresh_tag() {
                    Some(t) => t,
                    None => return Ok(()),
                };
                self.lens[tag as usize] = len;
                let b = mk_buf(tag, len);
                let r = guard(|| self.mem.provision_storage(b)).map_err(|p| ("panic".to_string(), format!("provision_storage panicked: {}", p)))?;
                let must_fail = self.model.free.len() >= self.model.cap || len < PDU_SIZE;
                match r {
                    Ok(()) => {
                        if must_fail {
                            return Err(("provision-accepted".into(), format!("provision_storage accepted a {}-byte buffer with {} free buffers (capacity {}, configured size {})", len, self.model.free.len(), self.model.cap, PDU_SIZE)));
                        }
                        self.model.free.push(tag);
                    }
                    Err(DecapMemoryError::StorageOverflow(b)) | Err(DecapMemoryError::BufferTooSmall(b)) => {
                        if !must_fail {
                            return Err(("provision-refused".into(), format!("provision_storage refused a {}-byte buffer with {} free buffers (capacity {})", len, self.model.free.len(), self.model.cap)));
                        }
                        if b.len() != len || tag_of(&b) != Some(tag) {
                            return Err(("provision-other-buffer-returned".into(), "provision_storage failed but did not hand the same buffer back".into()));
                        }
                    }
                    Err(e) => return Err(("provision-error-without-buffer".into(), format!("provision_storage failed with {:?} (the buffer is not handed back)", e))),
                }
            }
            Op::NewPdu => {
                let r = guard(|| self.mem.new_pdu()).map_err(|p| ("panic".to_string(), format!("new_pdu panicked: {}", p)))?;
                match r {
                    Ok(b) => {
                        let t = tag_of(&b);
                        match t.and_then(|t| self.model.free.iter().position(|x| *x == t)) {
                            Some(i) if b.len() == self.lens[t.unwrap() as usize] => {
                                self.model.free.remove(i);
                            }
                            _ => return Err(("new_pdu-unknown-buffer".into(), format!("new_pdu returned a buffer (tag {:?}, {}B) that is not one of the free buffers {:?} or whose contents changed", t, b.len(), self.model.free))),
                        }
                    }
                    Err(_) => {
                        if !self.model.free.is_empty() {
                            return Err(("new_pdu-fails-with-free-buffers".into(), format!("new_pdu failed although {} buffers are free", self.model.free.len())));
                        }
                    }
                }
            }
            Op::NewFrag(id) => {
                if slots == 0 {
                    return Ok(());
                }
                self.serial += 1;
                let c = ctx(*id, self.serial);
                let r = guard(|| self.mem.new_frag(c.clone())).map_err(|p| ("panic".to_string(), format!("new_frag panicked: {}", p)))?;
                let slot = *id as usize % slots;
                match r {
                    Ok((rc, b)) => {
                        if rc != c {
                            return Err(("new_frag-context-altered".into(), "new_frag returned a different context".into()));
                        }
                        let t = tag_of(&b);
                        match self.model.saved[slot].take() {
                            Some((_, bt)) => {
                                if t != Some(bt) || b.len() != self.lens[bt as usize] {
                                    return Err(("new_frag-did-not-reuse-slot-buffer".into(), format!("new_frag(id {}) on an occupied slot returned buffer tag {:?}, the slot's buffer is {}", id, t, bt)));
                                }
                            }
                            None => match t.and_then(|t| self.model.free.iter().position(|x| *x == t)) {
                                Some(i) if b.len() == self.lens[t.unwrap() as usize] => {
                                    self.model.free.remove(i);
                                }
                                _ => return Err(("new_frag-unknown-buffer".into(), format!("new_frag(id {}) on an empty slot returned buffer tag {:?}, free buffers {:?}", id, t, self.model.free))),
                            },
                        }
                        self.held.push((rc, b));
                    }
                    Err(_) => {
                        if self.model.saved[slot].is_some() || !self.model.free.is_empty() {
                            return Err(("new_frag-fails-with-storage".into(), format!("new_frag(id {}) failed although the slot holds a context: {} / free buffers: {}", id, self.model.saved[slot].is_some(), self.model.free.len())));
                        }
                    }
                }
            }
            Op::TakeFrag(id) => {
                if slots == 0 {
                    return Ok(());
                }
                let snap = self.mem.clone();
                let r = guard(|| self.mem.take_frag(*id)).map_err(|p| ("panic".to_string(), format!("take_frag panicked: {}", p)))?;
                let slot = *id as usize % slots;
                let holds = matches!(&self.model.saved[slot], Some((c, _)) if c.frag_id == *id);
                match r {
                    Ok((c, b)) => {
                        if !holds {
                            return Err(("take_frag-returns-unsaved".into(), format!("take_frag(id {}) returned a context (frag id {}) although none is saved under that id", id, c.frag_id)));
                        }
                        let (mc, bt) = self.model.saved[slot].take().unwrap();
                        if c != mc || tag_of(&b) != Some(bt) || b.len() != self.lens[bt as usize] {
                            return Err(("take_frag-returns-other".into(), format!("take_frag(id {}) did not return exactly the context/buffer last saved (buffer tag {:?} vs {})", id, tag_of(&b), bt)));
                        }
                        self.held.push((c, b));
                    }
                    Err(e) => {
                        if holds {
                            return Err(("take_frag-fails-for-saved-id".into(), format!("take_frag(id {}) failed with {:?} although a context is saved under that id", id, e)));
                        }
                        if self.mem != snap {
                            let aliasing = self.model.saved[slot].is_some();
                            return Err((format!("take_frag-undefined-id-changes-memory{}", if aliasing { ":aliasing-id" } else { "" }), format!("take_frag(id {}) reported {:?} but the memory changed: before {:?} after {:?}", id, e, snap, self.mem)));
                        }
                        if e != DecapMemoryError::UndefinedId {
                            return Err(("take_frag-wrong-error".into(), format!("take_frag(id {}) on an id that is not saved reported {:?} instead of UndefinedId", id, e)));
                        }
                    }
                }
            }
            Op::SaveHeld | Op::SaveHeldAs(_) | Op::SaveForeign(_) => {
                if slots == 0 || (self.held.is_empty() && !matches!(op, Op::SaveForeign(_))) {
                    return Ok(());
                }
                let (mut c, b) = if let Op::SaveForeign(i) = op {
                    self.serial += 1;
                    let tag = match self.fresh_tag() {
                        Some(t) => t,
                        None => return Ok(()),
                    };
                    self.lens[tag as usize] = PDU_SIZE - 3;
                    (ctx(*i, self.serial), mk_buf(tag, PDU_SIZE - 3))
                } else {
                    self.held.remove(0)
                };
                if let Op::SaveHeldAs(i) = op {
                    c.frag_id = *i;
                }
                let bt = tag_of(&b).unwrap_or(0);
                let slot = c.frag_id as usize % slots;
                let snap = self.mem.clone();
                let cc = c.clone();
                let r = guard(|| self.mem.save_frag((c, b))).map_err(|p| ("panic".to_string(), format!("save_frag panicked: {}", p)))?;
                match r {
                    Ok(()) => {
                        if self.model.saved[slot].is_some() {
                            return Err(("save_frag-overwrites".into(), format!("save_frag(id {}) succeeded although the slot is occupied", cc.frag_id)));
                        }
                        self.model.saved[slot] = Some((cc, bt));
                    }
                    Err(_) => {
                        if self.model.saved[slot].is_none() {
                            return Err(("save_frag-refused-on-empty-slot".into(), format!("save_frag(id {}) refused although the slot is empty", cc.frag_id)));
                        }
                        // the property says "refused" and nothing about the offered buffer: the memory may drop it (the
                        // trait has no way to hand it back) or keep it as a free buffer (only if it is large enough and
                        // there is room); the saved context of the slot and everything else must be as before
                        if self.mem != snap {
                            let fits = self.model.free.len() < self.model.cap && self.lens[bt as usize] >= PDU_SIZE;
                            self.model.free.push(bt);
                            if !fits || self.audit().is_err() {
                                return Err(("save_frag-refusal-changes-memory".into(), "save_frag was refused but the memory changed (other than by keeping the offered buffer as a free buffer)".into()));
                            }
                        }
                    }
                }
            }
        }
        Ok(())
    }

    /// structural agreement at a quiescent point: drain a clone and compare with the model
    fn audit(&self) -> Result<(), (String, String)> {
        let mut c = self.mem.clone();
        let slots = self.model.slots;
        let mut att: Vec<(u8, u8)> = Vec::new();
        if slots > 0 {
            // saved ids first (an implementation that destroys contexts on aliasing probes must not hide them)
            for s in self.model.saved.iter().flatten() {
                if let Ok((cx, b)) = c.take_frag(s.0.frag_id) {
                    att.push((cx.frag_id, tag_of(&b).unwrap_or(0)));
                }
            }
        }
        let mut free: Vec<u8> = Vec::new();
        while let Ok(b) = c.new_pdu() {
            free.push(tag_of(&b).unwrap_or(0));
            if free.len() > 1000 {
                break;
            }
        }
        let mut want_free = self.model.free.clone();
        want_free.sort_unstable();
        free.sort_unstable();
        let mut want_att: Vec<(u8, u8)> = self.model.saved.iter().flatten().map(|(c, t)| (c.frag_id, *t)).collect();
        want_att.sort_unstable();
        att.sort_unstable();
        if free != want_free || att != want_att {
            return Err(("audit-mismatch".into(), format!("memory holds free {:?} attached {:?}; the bag model says free {:?} attached {:?}", free, att, want_free, want_att)));
        }
        if c != SimpleGseMemory::new(slots, PDU_SIZE, 0, 0) {
            return Err(("audit-residue".into(), "after draining everything the model knows, the memory is not empty".into()));
        }
        Ok(())
    }
}

fn run_seq(slots: usize, cap: usize, seq: &[Op], rep: &mut Report, replay: &dyn Fn() -> String) -> bool {
    let mut s = Sys::new(slots, cap);
    for (i, op) in seq.iter().enumerate() {
        rep.eval();
        if let Err((clause, d)) = s.apply(op) {
            rep.violation("C17", format!("{}:slots{}", clause, if slots > 4 { 5 } else { slots }), || format!("slots {}: [{}] -> {}", slots, seq[..=i].iter().map(op_str).collect::<Vec<_>>().join("; "), d), replay);
            return false;
        }
    }
    if let Err((clause, d)) = s.audit() {
        rep.violation("C17", format!("{}:slots{}", clause, if slots > 4 { 5 } else { slots }), || format!("slots {}: [{}] -> {}", slots, seq.iter().map(op_str).collect::<Vec<_>>().join("; "), d), replay);
        return false;
    }
    true
}

impl Property for Prop {
    fn id(&self) -> &'static str {
        "C17"
    }
    fn rule(&self) -> &'static str {
        "exhaustive: for memories of 1..=4 slots every operation sequence of the given depth (quick 5, thorough 7) over provision(size below / at / above the configured size), new_pdu, new_frag(id), take_frag(id) for ids {0,1,slots,slots+1,255} and save_frag(oldest held context; a refused save may drop the offered buffer or keep it as a free buffer, nothing else may change); key = (slots, first two operations); after every operation the result is compared with an executable bag model (free-list capacity calibrated on a fresh memory, not assumed), after every sequence a drained clone is compared with the model. random: seeded sequences of 200..10000 operations incl. save under a different id and save of a foreign, shorter buffer; slots 1..=5, 7, 255 and 256 (ids 0, 1, 254, 255, 128 there). noslot: memories built with 0 slots: 60-operation sequences, every fragment operation answers with an error (take_frag: UndefinedId, memory unchanged), no panic, the free list keeps working. sizes: configured PDU sizes 0, 1, 255, 256, 4095, 4096, 65535..65537, 70000, 131072 x buffers of size-2..size+1. Buffers carry a tag in every byte (contents never modified). A sequence is non-trivial when it contains at least one successful save_frag; fingerprint = hash(slots, sequence)."
    }
    fn gens(&self, cx: &Cx) -> Vec<Gen> {
        let mut n = 0u64;
        for s in 1..=4usize {
            let a = alphabet(s).len() as u64;
            n += a * a;
        }
        vec![Gen { name: "exhaustive", count: n, exhaustive: true }, Gen { name: "random", count: cx.n(400, 20_000), exhaustive: false }, Gen { name: "sizes", count: 12, exhaustive: true }, Gen { name: "allpending", count: 6, exhaustive: true }, Gen { name: "noslot", count: 12, exhaustive: true }]
    }
    fn run_key(&self, cx: &Cx, gen: &str, key: u64, rep: &mut Report) {
        let replay_s = format!("gen={} key={} seed={} profile={}", gen, key, cx.seed, cx.profile);
        let replay = || replay_s.clone();
        match gen {
            "exhaustive" => {
                let mut k = key;
                let mut slots = 1;
                loop {
                    let a = alphabet(slots).len() as u64;
                    if k < a * a {
                        break;
                    }
                    k -= a * a;
                    slots += 1;
                }
                let alpha = alphabet(slots);
                let a = alpha.len();
                let cap = calibrate(slots);
                let depth = if cx.quick() { 5 } else { 7 };
                let rest = depth - 2;
                let total = a.pow(rest as u32);
                let mut seq = vec![alpha[k as usize / a], alpha[k as usize % a]];
                for idx in 0..total {
                    if idx % 64 == 0 && crate::expired() {
                        return;
                    }
                    seq.truncate(2);
                    let mut x = idx;
                    for _ in 0..rest {
                        seq.push(alpha[x % a]);
                        x /= a;
                    }
                    let ok = run_seq(slots, cap, &seq, rep, &replay);
                    if ok && seq.iter().any(|o| matches!(o, Op::SaveHeld)) && seq.iter().any(|o| matches!(o, Op::NewFrag(_))) {
                        rep.nontrivial(mix(key, idx as u64));
                    }
                }
                rep.count_n("c17.sequences", total as u64);
                if key == 40 {
                    rep.sample(|| format!("exhaustive: slots {} (calibrated free-list capacity {}), all sequences starting [{}; {}] agree with the bag model", slots, cap, op_str(&seq[0]), op_str(&seq[1])));
                }
            }
            "noslot" => {
                // a memory built with no slot at all (a receiver of complete PDUs only): every fragment operation
                // answers with an error (take_frag: UndefinedId) and leaves the memory as it was, never a panic;
                // the free list keeps working
                let mut rng = Rng::derive(cx.seed, fnv(gen.as_bytes()), key);
                let mut m = SimpleGseMemory::new(0, PDU_SIZE, 0, 0);
                let mut free = 0usize;
                for step in 0..60usize {
                    rep.eval();
                    let id = [0u8, 1, 255, 128][rng.below(4)];
                    let snap = m.clone();
                    let what = rng.below(5);
                    let bad: Option<String> = match what {
                        0 => match guard(|| m.provision_storage(mk_buf(step as u8, PDU_SIZE))) {
                            Ok(Ok(())) => {
                                free += 1;
                                None
                            }
                            Ok(Err(_)) => None,
                            Err(p) => Some(format!("provision_storage panicked: {}", p)),
                        },
                        1 => match guard(|| m.new_pdu()) {
                            Ok(Ok(_)) if free > 0 => {
                                free -= 1;
                                None
                            }
                            Ok(Err(_)) if free == 0 => None,
                            Ok(r) => Some(format!("new_pdu -> {} with {} free buffers", if r.is_ok() { "a buffer" } else { "an error" }, free)),
                            Err(p) => Some(format!("new_pdu panicked: {}", p)),
                        },
                        2 => match guard(|| m.take_frag(id)) {
                            Ok(Err(DecapMemoryError::UndefinedId)) if m == snap => None,
                            Ok(Err(e)) => Some(format!("take_frag(id {}) -> {:?}, memory unchanged: {}", id, e, m == snap)),
                            Ok(Ok(_)) => Some(format!("take_frag(id {}) returned a context", id)),
                            Err(p) => Some(format!("take_frag(id {}) panicked: {}", id, p)),
                        },
                        3 => match guard(|| m.new_frag(ctx(id, step as u16))) {
                            Ok(Err(_)) if m == snap => None,
                            Ok(Err(e)) => Some(format!("new_frag(id {}) -> {:?} and the memory changed", id, e)),
                            Ok(Ok(_)) if free > 0 => {
                                free -= 1;
                                None
                            }
                            Ok(Ok(_)) => Some(format!("new_frag(id {}) returned a buffer although none is free", id)),
                            Err(p) => Some(format!("new_frag(id {}) panicked: {}", id, p)),
                        },
                        _ => match guard(|| m.save_frag((ctx(id, step as u16), mk_buf(200, PDU_SIZE)))) {
                            Ok(Err(_)) => {
                                // (a refused save may keep the offered buffer as a free buffer)
                                let mut probe = m.clone();
                                let mut n = 0;
                                while probe.new_pdu().is_ok() {
                                    n += 1;
                                }
                                if n == free || n == free + 1 {
                                    free = n;
                                    None
                                } else {
                                    Some(format!("save_frag(id {}) refused, but {} buffers are free afterwards ({} before)", id, n, free))
                                }
                            }
                            Ok(Ok(())) => match guard(|| m.take_frag(id)) {
                                Ok(Ok(_)) => None,
                                _ => Some(format!("save_frag(id {}) accepted by a memory without slots, the context cannot be taken back", id)),
                            },
                            Err(p) => Some(format!("save_frag(id {}) panicked: {}", id, p)),
                        },
                    };
                    if let Some(d) = bad {
                        rep.violation("C17", format!("no-slot-memory:{}", ["provision_storage", "new_pdu", "take_frag", "new_frag", "save_frag"][what]), || format!("memory with 0 slots, step {}: {}", step, d), &replay);
                        return;
                    }
                }
                rep.count("c17.sequences");
                rep.count("c17.noslot-sequences");
            }
            "allpending" => {
                // a context pending on EVERY fragment id at once (256 / 300-slot memories): each comes back exactly as
                // saved, with the buffer it was saved with (identity = buffer length), in three take orders
                use dvb_gse_rust::gse_decap::GseDecapMemory;
                let slots = [256usize, 300][(key % 2) as usize];
                let mut m = SimpleGseMemory::new(slots, PDU_SIZE, 0, 0);
                for i in 0..256usize {
                    rep.eval();
                    if guard(|| m.provision_storage(vec![i as u8; PDU_SIZE + i].into_boxed_slice())).map(|r| r.is_err()).unwrap_or(true) {
                        rep.violation("C17", "all-ids-pending:provision".into(), || format!("{}-slot memory refused buffer {} of 256", slots, i + 1), &replay);
                        return;
                    }
                }
                let mut owned: Vec<usize> = vec![0; 256];
                for id in 0..256usize {
                    rep.eval();
                    let c = ctx(id as u8, (id * 3 + 1) as u16);
                    match guard(|| m.new_frag(c.clone())) {
                        Ok(Ok((rc, b))) if rc == c => {
                            owned[id] = b.len();
                            match guard(|| m.save_frag((rc, b))) {
                                Ok(Ok(())) => {}
                                o => {
                                    rep.violation("C17", "all-ids-pending:save_frag".into(), || format!("{}-slot memory, {} contexts pending: save_frag(id {}) -> {:?}", slots, id, id, o.map(|r| r.map_err(|e| format!("{:?}", e)))), &replay);
                                    return;
                                }
                            }
                        }
                        o => {
                            rep.violation("C17", "all-ids-pending:new_frag".into(), || format!("{}-slot memory, {} contexts pending: new_frag(id {}) -> {}", slots, id, id, match o { Ok(Ok(_)) => "another context".to_string(), Ok(Err(e)) => format!("{:?}", e), Err(p) => format!("panic {}", p) }), &replay);
                            return;
                        }
                    }
                }
                let mut lens: Vec<usize> = owned.clone();
                lens.sort_unstable();
                lens.dedup();
                if lens.len() != 256 {
                    rep.violation("C17", "all-ids-pending:buffer-handed-out-twice".into(), || format!("256 new_frag calls on empty slots handed out only {} distinct buffers", lens.len()), &replay);
                    return;
                }
                let order: Vec<usize> = match key / 2 {
                    0 => (0..256).collect(),
                    1 => (0..256).rev().collect(),
                    _ => (0..256).map(|i| (i * 37 + 11) % 256).collect(),
                };
                for id in order {
                    rep.eval();
                    let want = ctx(id as u8, (id * 3 + 1) as u16);
                    match guard(|| m.take_frag(id as u8)) {
                        Ok(Ok((c, b))) if c == want && b.len() == owned[id] => {}
                        o => {
                            rep.violation("C17", "all-ids-pending:take_frag".into(), || format!("{}-slot memory with a context pending on every fragment id: take_frag({}) -> {}", slots, id, match o { Ok(Ok((c, b))) => format!("context of id {} with a {}-byte buffer (saved with {} bytes)", c.frag_id, b.len(), owned[id]), Ok(Err(e)) => format!("{:?}", e), Err(p) => format!("panic {}", p) }), &replay);
                            return;
                        }
                    }
                }
                rep.count("c17.all-ids-pending-ok");
                rep.nontrivial(mix(0xA11F, key));
            }
            "sizes" => {
                // configured PDU sizes around the 8-, 12- and 16-bit limits: a buffer is accepted iff it is at least
                // as long as the configured size
                let size = [0usize, 1, 255, 256, 4095, 4096, 65535, 65536, 65537, 70000, 131072, 100][key as usize];
                for delta in [-2i64, -1, 0, 1] {
                    let len = size as i64 + delta;
                    if len < 0 {
                        continue;
                    }
                    rep.eval();
                    let mut m = SimpleGseMemory::new(2, size, 0, 0);
                    let r = guard(|| m.provision_storage(vec![0x5Au8; len as usize].into_boxed_slice()));
                    let want_ok = len as usize >= size;
                    match r {
                        Err(p) => rep.violation("C17", "provision-panic:sizes".into(), || format!("provision_storage panicked (configured size {}, buffer {}): {}", size, len, p), &replay),
                        Ok(res) => {
                            let same_back = match &res {
                                Err(DecapMemoryError::BufferTooSmall(b)) | Err(DecapMemoryError::StorageOverflow(b)) => b.len() == len as usize,
                                _ => false,
                            };
                            if res.is_ok() != want_ok || (!want_ok && !same_back) {
                                rep.violation("C17", format!("provision-size-rule:{}", if want_ok { "refused" } else { "accepted-or-buffer-lost" }), || format!("memory configured for PDUs of {} bytes: provision_storage of a {}-byte buffer = {}", size, len, if res.is_ok() { "Ok" } else { "Err" }), &replay);
                            } else {
                                rep.nontrivial(mix(0x512E, (size as u64) << 3 | (delta + 2) as u64));
                            }
                        }
                    }
                }
                rep.count("c17.sequences");
            }
            "random" => {
                let mut rng = Rng::derive(cx.seed, fnv(gen.as_bytes()), key);
                let slots = [1usize, 2, 3, 4, 256, 255, 5, 7][rng.below(8)];
                let cap = calibrate(slots);
                let n = 200 + rng.below(if cx.quick() { 2000 } else { 9800 });
                let mut alpha = alphabet(slots);
                for i in ids(slots) {
                    alpha.push(Op::SaveHeldAs(i));
                    if i < 2 {
                        alpha.push(Op::SaveForeign(i));
                    }
                }
                alpha.push(Op::SaveHeld);
                alpha.push(Op::SaveHeld);
                let seq: Vec<Op> = (0..n).map(|_| *rng.pick(&alpha)).collect();
                // audit at intermediate points too
                let mut s = Sys::new(slots, cap);
                let mut ok = true;
                for (i, op) in seq.iter().enumerate() {
                    if i % 64 == 0 && crate::expired() {
                        return;
                    }
                    rep.eval();
                    let r = s.apply(op).and_then(|_| if i % 17 == 0 { s.audit() } else { Ok(()) });
                    if let Err((clause, d)) = r {
                        let from = i.saturating_sub(8);
                        rep.violation("C17", format!("{}:slots{}", clause, if slots > 4 { 5 } else { slots }), || format!("slots {}: ... [{}] -> {}", slots, seq[from..=i].iter().map(op_str).collect::<Vec<_>>().join("; "), d), &replay);
                        ok = false;
                        break;
                    }
                }
                rep.count("c17.sequences");
                if ok {
                    rep.nontrivial(mix(0xC17, mix(key, n as u64)));
                }
            }
            _ => {}
        }
    }
    fn floors(&self, _cx: &Cx, rep: &mut Report) {
        if rep.get("c17.sequences") == 0 {
            rep.floors_missing.push("C17 floor: no sequence executed".into());
        }
    }
}
