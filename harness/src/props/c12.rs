//! C12 — the default CRC is CRC-32/MPEG-2 over total length | protocol type | label | PDU,
//! and it is what the encapsulator writes and the decapsulator recomputes.

use crate::mon::{guard, RecCrc, TableMgr};
use crate::refcrc::{self, FastRef};
use crate::report::Report;
use crate::rng::{hex, hex_short, mix, Rng};
use crate::sender::gen_chain;
use crate::train::build_train;
use crate::util::*;
use crate::wire::{self, Kind, MandTable};
use crate::{Cx, Gen, Property};
use dvb_gse_rust::crc::{CrcCalculator, DefaultCrc};
use dvb_gse_rust::gse_decap::{DecapStatus, Decapsulator, GseDecapMemory, SimpleGseMemory};
use dvb_gse_rust::gse_encap::{EncapMetadata, Encapsulator};
use dvb_gse_rust::label::Label;

pub struct C12;
pub static P: C12 = C12;

fn crate_crc(pdu: &[u8], ptype: u16, total: u16, label: &[u8]) -> Result<u32, String> {
    guard(|| DefaultCrc {}.calculate_crc32(pdu, ptype, total, label))
}

impl Property for C12 {
    fn id(&self) -> &'static str {
        "C12"
    }
    fn rule(&self) -> &'static str {
        "anchor: external check value 0x0376E6E7 of '123456789'; bytepos: for a seeded random message (label length 0/3/6) every byte position of total length, protocol type, label and the first 64 PDU bytes takes all 256 values (each value selects a distinct table index at that position) and DefaultCrc is compared with a bit-serial reference; lengths: PDU lengths from the size lattice up to 65535, each also as a sub-slice starting 1..=8 bytes into a larger buffer; random: seeded messages, one in four crafted so that the running CRC register is exactly zero at a field boundary or inside the PDU (all-ones total length and type; a label or PDU stretch equal to the register reached before it), one in three summed a second time after the same buffer was modified in place; sender/receiver: fragment trains built by the real encapsulator (half of them after a label-memory pre-history: re-use limit just reached, or re-use disabled after traffic with the same label; one in three through encap_ext with an extension chain, incl. re-use substituted first fragments) with a recording CrcCalculator on both sides, trailer compared with the reference, receiver accepts iff trailer == reference (also when its label memory is reset between two fragments); rx-handmade: hand-made trains sealed conformantly or with the wrong label rule (explicit label sealed as if re-used, re-use fragment sealed with the full label). Non-trivial = the reference and the crate both produced a value and were compared; fingerprint = hash of the full CRC input (or of the train)."
    }
    fn gens(&self, cx: &Cx) -> Vec<Gen> {
        vec![
            Gen { name: "anchor", count: 1, exhaustive: false },
            Gen { name: "bytepos", count: cx.n(48, 1200), exhaustive: false },
            Gen { name: "lengths", count: size_lattice().len() as u64, exhaustive: false },
            Gen { name: "random", count: cx.n(60_000, 1_000_000), exhaustive: false },
            Gen { name: "sender", count: cx.n(3_000, 60_000), exhaustive: false },
            Gen { name: "receiver", count: cx.n(3_000, 60_000), exhaustive: false },
            Gen { name: "rx-handmade", count: cx.n(6_000, 200_000), exhaustive: false },
        ]
    }
    fn run_key(&self, cx: &Cx, gen: &str, key: u64, rep: &mut Report) {
        let replay = || format!("gen={} key={} seed={} profile={}", gen, key, cx.seed, cx.profile);
        let fr = FastRef::new();
        let mut rng = Rng::derive(cx.seed, crate::rng::fnv(gen.as_bytes()), key);
        match gen {
            "anchor" => {
                rep.eval();
                // harness self-check: the bit-serial reference reproduces the published check value
                let r = refcrc::crc_bytes(0xFFFF_FFFF, b"123456789");
                if r != 0x0376_E6E7 {
                    rep.notes.push("HARNESS-PANIC reference CRC does not reproduce the CRC-32/MPEG-2 check value".into());
                    return;
                }
                match crate_crc(b"89", 0x3334, 0x3132, b"567") {
                    Ok(v) if v == 0x0376_E6E7 => {
                        rep.nontrivial(1);
                        rep.sample(|| "DefaultCrc(total=0x3132, type=0x3334, label='567', pdu='89') = 0x0376e6e7 (= check value of '123456789')".into());
                    }
                    Ok(v) => rep.violation("C12", "check-value".into(), || format!("DefaultCrc on '123456789' = {:#010x}, CRC-32/MPEG-2 check value is 0x0376e6e7", v), replay),
                    Err(p) => rep.violation("C12", "crc-panic".into(), || format!("DefaultCrc panicked: {}", p), replay),
                }
                // empty everything
                rep.eval();
                match crate_crc(b"", 0, 0, b"") {
                    Ok(v) if v == refcrc::gse_slow(0, 0, b"", b"") => rep.nontrivial(2),
                    Ok(v) => rep.violation("C12", "empty-input".into(), || format!("DefaultCrc(0,0,'','') = {:#010x}, reference {:#010x}", v, refcrc::gse_slow(0, 0, b"", b"")), replay),
                    Err(p) => rep.violation("C12", "crc-panic".into(), || format!("DefaultCrc panicked: {}", p), replay),
                }
            }
            "bytepos" => {
                let ll = [0usize, 3, 6][(key % 3) as usize];
                let plen = 64 + rng.below(40);
                let mut msg = rng.bytes(4 + ll + plen);
                let npos = 4 + ll + 64;
                for pos in 0..npos {
                    if crate::expired() {
                        return;
                    }
                    let keep = msg[pos];
                    for v in 0..256usize {
                        msg[pos] = v as u8;
                        rep.eval();
                        let total = u16::from_be_bytes([msg[0], msg[1]]);
                        let pt = u16::from_be_bytes([msg[2], msg[3]]);
                        let want = fr.bytes(0xFFFF_FFFF, &msg);
                        match crate_crc(&msg[4 + ll..], pt, total, &msg[4..4 + ll]) {
                            Ok(got) if got == want => {}
                            Ok(got) => {
                                let m = msg.clone();
                                rep.violation("C12", format!("value-mismatch:bytepos:label{}", ll), || format!("DefaultCrc != CRC-32/MPEG-2 for message {} (byte {} = {:#04x}): got {:#010x} want {:#010x}", hex_short(&m, 64), pos, v, got, want), replay);
                            }
                            Err(p) => rep.violation("C12", "crc-panic".into(), || format!("DefaultCrc panicked: {}", p), replay),
                        }
                    }
                    msg[pos] = keep;
                    rep.nontrivial(mix(key, pos as u64));
                }
                // one slow cross-check of the fast reference per key
                let slow = refcrc::crc_bytes(0xFFFF_FFFF, &msg);
                if slow != fr.bytes(0xFFFF_FFFF, &msg) {
                    rep.notes.push("HARNESS-PANIC fast reference disagrees with bit-serial reference".into());
                }
                rep.count_n("bytepos.positions", npos as u64);
                if key == 0 {
                    rep.sample(|| format!("bytepos: message {} — all 256 values at each of {} positions agree with the bit-serial reference", hex_short(&msg, 48), npos));
                }
            }
            "lengths" => {
                let lat = size_lattice();
                let plen = std::cmp::min(lat[key as usize], 65535);
                for ll in [0usize, 3, 6] {
                    for class in 0..3 {
                        rep.eval();
                        let pdu = gen_pdu(&mut rng, plen, class);
                        let label = rng.bytes(ll);
                        let total = rng.next() as u16;
                        let pt = rng.next() as u16;
                        let want = if plen <= 300 { refcrc::gse_slow(total, pt, &label, &pdu) } else { fr.gse(total, pt, &label, &pdu) };
                        match crate_crc(&pdu, pt, total, &label) {
                            Ok(got) if got == want => rep.nontrivial(mix(mix(plen as u64, ll as u64), class as u64 + 77)),
                            Ok(got) => rep.violation("C12", format!("value-mismatch:lengths:label{}", ll), || format!("DefaultCrc != reference for pdu_len {} label_len {} total {:#06x} type {:#06x}: got {:#010x} want {:#010x}", plen, ll, total, pt, got, want), replay),
                            Err(p) => rep.violation("C12", "crc-panic".into(), || format!("DefaultCrc panicked (pdu_len {}): {}", plen, p), replay),
                        }
                        // the same PDU as a sub-slice of a larger buffer, at every offset 1..=8 (a PDU inside a frame
                        // does not start on a word boundary)
                        if class == 0 {
                            let mut big = vec![0xA5u8; plen + 16];
                            for off in 1..=8usize {
                                big[off..off + plen].copy_from_slice(&pdu);
                                rep.eval();
                                match crate_crc(&big[off..off + plen], pt, total, &label) {
                                    Ok(got) if got == want => {}
                                    Ok(got) => {
                                        rep.violation("C12", format!("value-mismatch:lengths:unaligned-slice:label{}", ll), || format!("DefaultCrc != reference for a PDU of {} bytes that starts {} bytes into a larger buffer (label_len {}): got {:#010x} want {:#010x}", plen, off, ll, got, want), replay);
                                        break;
                                    }
                                    Err(p) => {
                                        rep.violation("C12", "crc-panic".into(), || format!("DefaultCrc panicked (pdu_len {}, offset {}): {}", plen, off, p), replay);
                                        break;
                                    }
                                }
                            }
                        }
                    }
                }
            }
            "random" => {
                rep.eval();
                let ll = [0usize, 3, 6][rng.below(3)];
                let plen = if rng.chance(1, 50) { rng.below(65536) } else { rng.below(300) };
                let mut pdu = rng.bytes(plen);
                let mut label = rng.bytes(ll);
                let mut total = rng.next() as u16;
                let mut pt = rng.next() as u16;
                // one input in four is crafted so that the running CRC register is exactly ZERO at a field boundary or
                // inside the PDU (appending the register's own four bytes zeroes it): all-ones total length and type,
                // a label / a PDU stretch equal to the register reached before it
                match rng.below(16) {
                    0 => {
                        total = 0xFFFF;
                        pt = 0xFFFF;
                    }
                    1 if ll == 6 => {
                        let mut pre = total.to_be_bytes().to_vec();
                        pre.extend_from_slice(&pt.to_be_bytes());
                        pre.extend_from_slice(&label[..2]);
                        let c = fr.bytes(0xFFFF_FFFF, &pre);
                        label[2..6].copy_from_slice(&c.to_be_bytes());
                    }
                    2 if ll == 3 => {
                        let mut pre = total.to_be_bytes().to_vec();
                        pre.push((pt >> 8) as u8);
                        let c = fr.bytes(0xFFFF_FFFF, &pre).to_be_bytes();
                        pt = (pt & 0xFF00) | c[0] as u16;
                        label.copy_from_slice(&c[1..4]);
                    }
                    3 if plen >= 4 => {
                        let k = rng.below(plen - 3);
                        let mut pre = total.to_be_bytes().to_vec();
                        pre.extend_from_slice(&pt.to_be_bytes());
                        pre.extend_from_slice(&label);
                        pre.extend_from_slice(&pdu[..k]);
                        let c = fr.bytes(0xFFFF_FFFF, &pre);
                        pdu[k..k + 4].copy_from_slice(&c.to_be_bytes());
                        rep.count("random.zero-register-inside-pdu");
                    }
                    _ => {}
                }
                // the same buffer refilled in place and summed again (a second answer must not be the first one's)
                if plen > 0 && rng.chance(1, 3) {
                    let _ = crate_crc(&pdu, pt, total, &label);
                    let k = rng.below(plen);
                    pdu[k] ^= 1 << rng.below(8);
                    rep.count("random.same-buffer-summed-twice");
                }
                let want = fr.gse(total, pt, &label, &pdu);
                match crate_crc(&pdu, pt, total, &label) {
                    Ok(got) if got == want => {
                        rep.nontrivial(mix(want as u64, plen as u64));
                        if key < 2 {
                            rep.sample(|| format!("random: total={:#06x} type={:#06x} label={} pdu={} -> {:#010x}", total, pt, hex(&label), hex_short(&pdu, 32), got));
                        }
                    }
                    Ok(got) => rep.violation("C12", format!("value-mismatch:random:label{}", ll), || format!("DefaultCrc != reference: total={:#06x} type={:#06x} label={} pdu={} got {:#010x} want {:#010x}", total, pt, hex(&label), hex_short(&pdu, 64), got, want), replay),
                    Err(p) => rep.violation("C12", "crc-panic".into(), || format!("DefaultCrc panicked: {}", p), replay),
                }
            }
            "rx-handmade" => {
                // hand-made trains (independent serialiser) sealed conformantly or with a wrong label rule;
                // the receiver must accept exactly those whose trailer equals the reference CRC over
                // total length | protocol type | label bytes ON THE WIRE (none for re-use / broadcast) | PDU
                use crate::hostile::{mk_complete, mk_end, mk_first, mk_inter};
                let lt = rng.below(4) as u8;
                let lab6 = { let mut b = rng.bytes(6); b[0] |= 1; b };
                let full: Vec<u8> = if lt == 1 || (lt == 3 && rng.chance(1, 2)) { lab6[..3].to_vec() } else { lab6.clone() };
                let wire_label: Vec<u8> = if lt < 2 { if lt == 0 { lab6.clone() } else { lab6[..3].to_vec() } } else { vec![] };
                let plen = if rng.chance(1, 6) { 0 } else { 1 + rng.below(120) };
                let pdu = rng.bytes(plen);
                let ptype = gen_user_ptype(&mut rng);
                let id = rng.byte();
                // 0 conformant, 1 explicit label sealed as if re-used, 2 re-use fragment sealed with the full label,
                // 3 conformant with the receiver's label memory reset between the fragments
                let variant = match (lt, rng.below(4)) {
                    (0, 1) | (1, 1) => 1,
                    (3, 2) => 2,
                    (_, 3) => 3,
                    _ => 0,
                };
                let (total, crc_label): (u16, Vec<u8>) = match variant {
                    1 => ((2 + plen) as u16, vec![]),
                    2 => ((2 + full.len() + plen) as u16, full.clone()),
                    _ => ((2 + wire_label.len() + plen) as u16, wire_label.clone()),
                };
                let crc = fr.gse(total, ptype, &crc_label, &pdu);
                let c1 = rng.below(plen + 1);
                let c2 = c1 + rng.below(plen - c1 + 1);
                let mut pkts = vec![mk_first(lt, &wire_label, id, total, ptype, &pdu[..c1])];
                if c2 > c1 {
                    pkts.push(mk_inter(id, &pdu[c1..c2]));
                }
                pkts.push(mk_end(id, &pdu[c2..], crc));
                let rxcrc = RecCrc::new();
                let mut dec = mon_dec(2, plen, &[plen + 1, plen + 2], MandTable::none(), rxcrc.clone());
                if lt == 3 {
                    // the label the re-use refers to
                    let pl = mk_complete(if full.len() == 3 { 1 } else { 0 }, &full, 0x0800, b"");
                    match dec_guard(&mut dec, &pl) {
                        Ok(Ok((DecapStatus::CompletedPkt(b, _), _))) => {
                            give_back(&mut dec, b);
                        }
                        _ => {
                            rep.count("rx-handmade.prime-rejected");
                            return;
                        }
                    }
                }
                // one run in three: a train of the OTHER label mode was abandoned on the same fragment id just before
                // (a re-use first fragment before an explicit-label train, an explicit-label one before a re-use train)
                if lt != 2 && rng.chance(1, 3) {
                    let junk = rng.bytes(plen.min(3));
                    let abandoned = if lt == 3 {
                        mk_first(if full.len() == 3 { 1 } else { 0 }, &full, id, (2 + full.len() + plen + 9) as u16, ptype, &junk)
                    } else {
                        let pl = mk_complete(lt, &wire_label, 0x0800, b"");
                        if let Ok(Ok((DecapStatus::CompletedPkt(b, _), _))) = dec_guard(&mut dec, &pl) {
                            give_back(&mut dec, b);
                        }
                        mk_first(3, &[], id, (2 + plen + 9) as u16, ptype, &junk)
                    };
                    if matches!(dec_guard(&mut dec, &abandoned), Ok(Ok((DecapStatus::FragmentedPkt(_), _)))) {
                        rep.count("rx-handmade.abandoned-train-of-other-label-mode");
                    }
                }
                rxcrc.take();
                let n = pkts.len();
                let mut last = None;
                for (i, p) in pkts.iter().enumerate() {
                    rep.eval();
                    let r = dec_guard(&mut dec, p);
                    if variant == 3 && i + 1 < n {
                        dec.reset_last_label();
                    }
                    if i + 1 == n {
                        last = Some(r);
                    } else if !matches!(r, Ok(Ok((DecapStatus::FragmentedPkt(_), _)))) {
                        last = Some(r);
                        break;
                    }
                }
                let last = last.unwrap();
                // reference per the property: label bytes on the wire
                let want = fr.gse(total, ptype, &wire_label, &pdu);
                let conformant = want == crc && total as usize == 2 + wire_label.len() + plen;
                let delivered = matches!(&last, Ok(Ok((DecapStatus::CompletedPkt(b, m), _))) if m.pdu_len() == plen && b[..plen] == pdu[..]);
                let cls = format!("lt{}:v{}", lt, variant);
                for c in rxcrc.take() {
                    if c.label != wire_label || c.ptype != ptype || c.total_len != total || c.pdu != pdu {
                        rep.violation("C12", format!("receiver-args:handmade:{}", cls), || format!("decapsulator called the CRC calculator with (pdu {}B, type {:#06x}, total {:#06x}, label {}); the bytes on the wire are (pdu {}B, {:#06x}, {:#06x}, label {})", c.pdu.len(), c.ptype, c.total_len, hex(&c.label), plen, ptype, total, hex(&wire_label)), replay);
                    }
                }
                if conformant && !delivered {
                    rep.violation("C12", format!("receiver-rejects-good-crc:handmade:{}", cls), || format!("conformant hand-made train (label type {}, label on the wire {}, pdu {}B, {} packets, variant {}) not delivered: {}", lt, hex(&wire_label), plen, n, variant, dec_res_str(&last)), replay);
                } else if !conformant && matches!(&last, Ok(Ok((DecapStatus::CompletedPkt(_, _), _)))) {
                    rep.violation("C12", format!("receiver-accepts-bad-crc:handmade:{}", cls), || format!("train sealed with the wrong label rule (variant {}: label type {}, label on the wire {}, CRC computed over label {}, total length {}) was delivered", variant, lt, hex(&wire_label), hex(&crc_label), total), replay);
                }
                rep.count(&format!("rx-handmade.v{}.{}", variant, if delivered { "delivered" } else { "rejected" }));
                rep.nontrivial(mix(mix(0x4A4D, key), variant as u64));
            }
            "sender" | "receiver" => {
                // a fragmented transfer built by the real encapsulator
                let kind = rng.below(N_LABEL_KINDS);
                let label = gen_label(&mut rng, kind);
                let substituted = label != Label::Broadcast && rng.chance(1, 3);
                // one transfer in three carries an extension chain (encap_ext)
                let use_ext = rng.chance(1, 3);
                let nchain = 1 + rng.below(3);
                let chain_final = rng.chance(1, 4);
                let chain = gen_chain(&mut rng, nchain, chain_final);
                // (a mandatory data block above 255 bytes cannot be described to a real receiver's manager)
                let use_ext = use_ext && !chain.entries.iter().any(|e| e.id < 0x100 && e.data.len() > 255);
                let ptype = if use_ext && chain_final { chain.entries.last().unwrap().id } else { gen_user_ptype(&mut rng) };
                let plen = match rng.below(12) {
                    0 => rng.range(4096, 12000),
                    1 => rng.range(0, 3),
                    // the longest PDUs the total length can announce, for the label as written (re-used: none)
                    2 if !use_ext => 65533 - if substituted { 0 } else { label_bytes(&label).len() } - rng.below(3),
                    _ => rng.range(1, 600),
                };
                let pdu = rng.bytes(plen);
                let frag_id = rng.byte();
                let meta = EncapMetadata::new(ptype, label);
                let txcrc = RecCrc::new();
                let mut enc = Encapsulator::new(txcrc.clone());
                let mut prime: Option<Vec<u8>> = None;
                // label-memory pre-histories after which the label must be written IN FULL although it is the label
                // of the preceding packet: (2) the re-use limit has just been reached, (3) re-use was disabled
                // after traffic with this label
                let pre = if label != Label::Broadcast { rng.below(4) } else { 0 };
                let mut pre_pkts: Vec<Vec<u8>> = Vec::new();
                if pre >= 2 {
                    let n = 1 + rng.below(3);
                    if pre == 2 {
                        enc.enable_re_use_label_with_max_consecutive(n as u8);
                    }
                    let reps = if pre == 2 { n + 1 } else { 1 + rng.below(3) };
                    for _ in 0..reps {
                        let mut b = vec![0u8; 64];
                        match enc_guard(&mut enc, b"", 0, EncapMetadata::new(0x0800, label), &mut b) {
                            Ok(Ok(s)) => {
                                let (k, _) = status_parts(&s);
                                b.truncate(k);
                                pre_pkts.push(b);
                            }
                            _ => {
                                rep.count("sender.prehistory-failed");
                                return;
                            }
                        }
                    }
                    if pre == 3 {
                        enc.disable_re_use_label();
                    }
                    rep.count(&format!("sender.prehistory{}", pre));
                }
                let substituted = substituted && pre < 2;
                if substituted {
                    // previous complete packet with the same label so that the first fragment uses re-use
                    let mut b = vec![0u8; 64];
                    match enc_guard(&mut enc, b"", 0, EncapMetadata::new(0x0800, label), &mut b) {
                        Ok(Ok(s)) => {
                            let (n, _) = status_parts(&s);
                            b.truncate(n);
                            prime = Some(b);
                        }
                        _ => {
                            rep.count("sender.prime-failed");
                            return;
                        }
                    }
                }
                txcrc.take();
                let max_first = std::cmp::min(plen + 8, 4000);
                let first_size = 13 + rng.below(std::cmp::max(1, max_first));
                let mode = rng.below(3);
                let mut r2 = rng.clone();
                let ext_extra = if use_ext { crate::wire::chain_extra_len(&chain.entries, chain_final) } else { 0 };
                let first_size = first_size + ext_extra;
                let crate_exts = if use_ext { chain.to_crate() } else { None };
                if use_ext && crate_exts.is_none() {
                    rep.count("train.chain-unconstructible");
                    return;
                }
                let tr = build_train(&mut enc, &pdu, frag_id, meta, crate_exts, |i| if i == 0 { first_size } else if mode == 0 { 4097 } else { 8 + r2.below(300) }, 4000);
                let tr = match tr {
                    Ok(t) if t.complete && t.pkts.len() >= 2 => t,
                    Ok(_) => {
                        rep.count("train.not-fragmented");
                        return;
                    }
                    Err(_) => {
                        rep.count("train.sender-failed");
                        return;
                    }
                };
                let table = if use_ext { chain.table() } else { MandTable::none() };
                let first = match wire::parse(&tr.pkts[0], &table) {
                    Ok(p) if p.kind == Kind::First => p,
                    _ => {
                        rep.count("train.first-unparseable");
                        return;
                    }
                };
                let last = match wire::parse(tr.pkts.last().unwrap(), &table) {
                    Ok(p) if p.kind == Kind::End => p,
                    _ => {
                        rep.count("train.end-unparseable");
                        return;
                    }
                };
                let wire_label = first.label.clone();
                let total = first.total_len.unwrap();
                let want = fr.gse(total, ptype, &wire_label, &pdu);
                rep.eval();
                if gen == "sender" {
                    let calls = txcrc.take();
                    let lt = first.lt;
                    let cls = format!("lt{}{}", lt, if use_ext { "+ext" } else { "" });
                    if use_ext {
                        rep.count("sender.trains.ext");
                    }
                    if substituted && lt != 3 {
                        rep.count("sender.no-substitution");
                    }
                    if last.crc != Some(want) {
                        rep.violation("C12", format!("sender-trailer:{}", cls), || format!("end packet trailer {:#010x?} != CRC-32/MPEG-2 over total_length({:#06x}) | type({:#06x}) | label as written({}) | PDU({} bytes) = {:#010x}", last.crc, total, ptype, hex(&wire_label), pdu.len(), want), replay);
                    }
                    // the arguments the encapsulator handed to the calculator
                    if calls.len() != 1 {
                        rep.count("sender.crc-calls-not-1");
                    }
                    for c in &calls {
                        if c.pdu != pdu || c.ptype != ptype || c.total_len != total || c.label != wire_label {
                            rep.violation("C12", format!("sender-args:{}", cls), || format!("encapsulator called the CRC calculator with (pdu {}B, type {:#06x}, total {:#06x}, label {}), expected (pdu {}B, {:#06x}, {:#06x}, {})", c.pdu.len(), c.ptype, c.total_len, hex(&c.label), pdu.len(), ptype, total, hex(&wire_label)), replay);
                        }
                    }
                    if total as usize != 2 + wire_label.len() + pdu.len() {
                        rep.count("sender.total-length-unexpected");
                    }
                    rep.nontrivial(mix(want as u64, tr.pkts.len() as u64));
                    rep.count(&format!("sender.trains.lt{}", lt));
                    if key < 2 {
                        rep.sample(|| format!("sender: pdu {}B label {} type {:#06x} -> {} packets, trailer {:#010x} == reference", pdu.len(), label_str(&label), ptype, tr.pkts.len(), want));
                    }
                } else {
                    // receiver: feed the train, possibly with a corrupted trailer / payload
                    // 0 intact, 1 trailer bit flip, 2 payload bit flip (in end or first), 3 trailer replaced,
                    // 4 trailer re-sealed with the REFERENCE CRC of the bytes (independent of the sender's trailer)
                    let variant = rng.below(5);
                    let mut pkts = tr.pkts.clone();
                    let n = pkts.len();
                    match variant {
                        1 => {
                            let l = pkts[n - 1].len();
                            let bit = rng.below(32);
                            pkts[n - 1][l - 4 + bit / 8] ^= 1 << (bit % 8);
                        }
                        2 => {
                            // flip a payload bit somewhere (first fragment payload or end payload) if any
                            let cands: Vec<(usize, usize)> = {
                                let mut v = Vec::new();
                                for o in first.payload.clone() {
                                    v.push((0usize, o));
                                }
                                for o in last.payload.clone() {
                                    v.push((n - 1, o));
                                }
                                v
                            };
                            if cands.is_empty() {
                                rep.count("receiver.no-payload-to-flip");
                                return;
                            }
                            let (pi, o) = cands[rng.below(cands.len())];
                            pkts[pi][o] ^= 1 << rng.below(8);
                        }
                        3 => {
                            let l = pkts[n - 1].len();
                            let v = rng.next() as u32;
                            pkts[n - 1][l - 4..].copy_from_slice(&v.to_be_bytes());
                        }
                        4 => {
                            let l = pkts[n - 1].len();
                            pkts[n - 1][l - 4..].copy_from_slice(&want.to_be_bytes());
                        }
                        _ => {}
                    }
                    let rxcrc = RecCrc::new();
                    let mut dec = mon_dec(4, pdu.len(), &[pdu.len() + 1, pdu.len() + 2, pdu.len() + 3], table.clone(), rxcrc.clone());
                    for pp in &pre_pkts {
                        match dec_guard(&mut dec, pp) {
                            Ok(Ok((DecapStatus::CompletedPkt(b, _), _))) => {
                                give_back(&mut dec, b);
                            }
                            _ => {
                                rep.count("receiver.prehistory-rejected");
                                return;
                            }
                        }
                    }
                    rxcrc.take();
                    if let Some(p) = &prime {
                        match dec_guard(&mut dec, p) {
                            Ok(Ok((DecapStatus::CompletedPkt(b, _), _))) => {
                                give_back(&mut dec, b);
                            }
                            _ => {
                                rep.count("receiver.prime-rejected");
                                return;
                            }
                        }
                    }
                    let mut last_res = None;
                    let reset_between = rng.chance(1, 3);
                    for (i, p) in pkts.iter().enumerate() {
                        let r = dec_guard(&mut dec, p);
                        if reset_between && i + 1 < n {
                            // a new frame starts between two fragments of the train
                            dec.reset_last_label();
                        }
                        if i + 1 == n {
                            last_res = Some(r);
                        } else if !matches!(r, Ok(Ok((DecapStatus::FragmentedPkt(_), _)))) {
                            rep.count("receiver.non-final-not-fragmented");
                            return;
                        }
                    }
                    let last_res = last_res.unwrap();
                    // what did the receiver receive? recompute from received bytes
                    let mut rx_pdu: Vec<u8> = Vec::new();
                    let mut ok_parse = true;
                    for p in &pkts {
                        match wire::parse(p, &table) {
                            Ok(pp) => rx_pdu.extend_from_slice(&p[pp.payload.clone()]),
                            Err(_) => ok_parse = false,
                        }
                    }
                    if !ok_parse {
                        rep.count("receiver.unparseable-after-fault");
                        return;
                    }
                    let rx_end = wire::parse(&pkts[n - 1], &table).unwrap();
                    let rx_first = wire::parse(&pkts[0], &table).unwrap();
                    let want_rx = fr.gse(rx_first.total_len.unwrap(), rx_first.ptype.unwrap(), &rx_first.label, &rx_pdu);
                    let trailer_ok = rx_end.crc == Some(want_rx);
                    let calls = rxcrc.take();
                    let cls = format!("lt{}{}:v{}", first.lt, if use_ext { "+ext" } else { "" }, variant);
                    if use_ext {
                        rep.count("receiver.trains.ext");
                    }
                    for c in &calls {
                        if c.pdu != rx_pdu || c.ptype != rx_first.ptype.unwrap() || c.total_len != rx_first.total_len.unwrap() || c.label != rx_first.label {
                            rep.violation("C12", format!("receiver-args:{}", cls), || format!("decapsulator called the CRC calculator with (pdu {}B, type {:#06x}, total {:#06x}, label {}), expected (reassembled pdu {}B, {:#06x}, {:#06x}, label bytes on the wire {})", c.pdu.len(), c.ptype, c.total_len, hex(&c.label), rx_pdu.len(), rx_first.ptype.unwrap(), rx_first.total_len.unwrap(), hex(&rx_first.label)), replay);
                        }
                    }
                    match &last_res {
                        Ok(Ok((DecapStatus::CompletedPkt(_, _), _))) => {
                            rep.count("receiver.accepted");
                            if !trailer_ok {
                                rep.violation("C12", format!("receiver-accepts-bad-crc:{}", cls), || format!("train accepted although trailer {:#010x?} != reference {:#010x} over the received bytes", rx_end.crc, want_rx), replay);
                            }
                        }
                        Ok(Err(_)) => {
                            rep.count("receiver.rejected");
                            if trailer_ok {
                                rep.violation("C12", format!("receiver-rejects-good-crc:{}", cls), || format!("valid train (trailer == reference {:#010x}) rejected: {}", want_rx, dec_res_str(&last_res)), replay);
                            }
                        }
                        other => {
                            rep.count("receiver.other-outcome");
                            if trailer_ok {
                                rep.violation("C12", format!("receiver-rejects-good-crc:{}", cls), || format!("valid train not delivered: {}", dec_res_str(other)), replay);
                            }
                        }
                    }
                    rep.nontrivial(mix(want_rx as u64, variant as u64));
                    rep.count(&format!("receiver.variant{}", variant));
                    if key < 2 {
                        rep.sample(|| format!("receiver: {} packets, variant {} (0 intact,1 trailer bit,2 payload bit,3 trailer replaced,4 re-sealed with reference CRC) -> {}", n, variant, dec_res_str(&last_res)));
                    }
                }
            }
            _ => {}
        }
    }
    fn floors(&self, _cx: &Cx, rep: &mut Report) {
        for k in ["sender.trains.lt0", "sender.trains.lt1", "sender.trains.lt2", "sender.trains.lt3", "sender.trains.ext", "receiver.trains.ext", "receiver.accepted", "receiver.rejected", "receiver.variant4", "rx-handmade.v0.delivered", "rx-handmade.v1.rejected", "rx-handmade.v2.rejected", "rx-handmade.v3.delivered"] {
            if rep.get(k) == 0 {
                rep.floors_missing.push(format!("C12 floor: counter {} is 0", k));
            }
        }
    }
}
