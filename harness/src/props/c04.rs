//! C04 — label re-use never attributes a PDU to a label the sender did not intend
//! (lock-step sender/receiver histories + receiver-only clause on mutated streams).

use super::labelops::*;
use crate::report::Report;
use crate::rng::{fnv, hex_short, mix, Rng};
use crate::rxspec::{RxSpec, RX_C04};
use crate::util::*;
use crate::wire::MandTable;
use crate::{Cx, Gen, Property};

pub struct Prop;
pub static P: Prop = Prop;

fn run_history(h: &[Op], record: bool, rep: &mut Report, replay: &dyn Fn() -> String) -> Exec {
    let mut ex = Exec::new(true);
    if record {
        ex.record = Some(Vec::new());
    }
    for (i, op) in h.iter().enumerate() {
        let hs = || hist_str(&h[..=i]);
        if !ex.step(op, M_C04, &hs, rep, replay) {
            break;
        }
    }
    ex
}

impl Property for Prop {
    fn id(&self) -> &'static str {
        "C04"
    }
    fn rule(&self) -> &'static str {
        "exhaustive: every lock-step history of the given depth (quick 4, thorough 5) over a 52-operation alphabet: encap fitting / fragmenting / failing (too small) for labels {A6,B6,C3,D3,broadcast,explicit re-use}; encap_ext (fitting for {A6,C3,broadcast}, fragmenting for {A6,C3}), PDU-too-long and bad-protocol-type failures for {A6,C3,broadcast}; PDUs too long only because of the label they would carry; encap_ext with a wrong final mandatory extension; signalling protocol types through plain encap; the receiving application draining its pool with new_pdu and refilling it; fragment ids 0..=7 on the 4-slot receiver (a first fragment claims its slot); zero label; a 6-byte label numerically equal to the 3-byte one; a 6-byte label sharing its first three bytes with another; signalling PDUs (encap_ext with the final mandatory extension 0x0081, receiver with the signalisation table) for {B6, broadcast}; first fragments leaving only a few bytes / carrying no payload byte; encap_frag continuation of the oldest pending train; encap_frag called again with a stale context (a train superseded on its fragment id, or the end packet of a finished train re-sent: the receiver refuses it, nothing is demanded about the PDUs so mixed, everything else must stay attributable and deliverable); reset of both sides; disable; enable; enable_max(0/1/2); the accessor calls set_crc_calculator (an equal calculator) / get_crc_calculator / is_enabled_re_use_label, which must not touch the label policy; each produced packet is fed to the receiver at once; key = first two operations. restart on the previous fragment id; random: seeded histories of 50..2000 operations. restarts: scripted restarts of a fragment id (label kinds, primed or not, explicit re-use after a reset whose first fragment is refused and must take the older train with it, filler calls so that both PDUs have equal bytes), everything pending continued afterwards. rxstreams: traffic recorded from a random history, then mutated (drops, duplicates, swaps, byte corruption, junk and padding insertion, resets at random points) and fed to a fresh receiver (half of them with scarce storage, so that packets rejected for lack of storage sit between label-carrying and re-use packets) under the receiver-only clause. Non-trivial = a history in which the receiver resolved at least one re-use label or delivered at least one PDU; fingerprint = hash of the operation sequence / mutated stream."
    }
    fn gens(&self, cx: &Cx) -> Vec<Gen> {
        let a = alphabet_c04().len() as u64;
        vec![Gen { name: "exhaustive", count: a * a, exhaustive: true }, Gen { name: "random", count: cx.n(2_000, 200_000), exhaustive: false }, Gen { name: "rxstreams", count: cx.n(10_000, 400_000), exhaustive: false }, Gen { name: "restarts", count: 64, exhaustive: true }]
    }
    fn run_key(&self, cx: &Cx, gen: &str, key: u64, rep: &mut Report) {
        let replay_s = format!("gen={} key={} seed={} profile={}", gen, key, cx.seed, cx.profile);
        let replay = || replay_s.clone();
        let alpha = alphabet_c04();
        let a = alpha.len();
        let mut rng = Rng::derive(cx.seed, fnv(gen.as_bytes()), key);
        match gen {
            "exhaustive" => {
                let d = if cx.quick() { 4 } else { 5 };
                let mut h: Vec<Op> = vec![alpha[(key as usize) / a], alpha[(key as usize) % a]];
                let rest = d - 2;
                let total = a.pow(rest as u32);
                for idx in 0..total {
                    if idx % 64 == 0 && crate::expired() {
                        return;
                    }
                    h.truncate(2);
                    let mut x = idx;
                    for _ in 0..rest {
                        h.push(alpha[x % a]);
                        x /= a;
                    }
                    let ex = run_history(&h, false, rep, &replay);
                    rep.count_n("c04.packets", ex.emitted_packets);
                    rep.count_n("c04.deliveries", ex.deliveries);
                    rep.count_n("c04.failed-calls", ex.failed_calls);
                    rep.count_n("c04.substitutions", ex.substitutions);
                    if ex.deliveries > 0 {
                        rep.nontrivial(mix(key, idx as u64));
                    }
                    if ex.substitutions >= 1 && ex.failed_calls >= 1 && idx % 499 == 0 {
                        rep.sample(|| format!("exhaustive: [{}] -> {} packets, {} deliveries, all attributed to the intended label", hist_str(&h), ex.emitted_packets, ex.deliveries));
                    }
                }
                rep.count_n("c04.histories", total as u64);
            }
            "restarts" => {
                // scripted restarts of a fragment id: [prefix] PDU 1 fragments on id X; (reset); PDU 2 on the SAME id with
                // label l2 (explicit re-use after a reset cannot be resolved: its first fragment is refused, and with it
                // the id's older train); then everything pending is continued.  Both PDUs have equal bytes every second
                // call, so that a fragment attached to the wrong train passes the length and CRC checks.
                use super::labelops::Outcome;
                let l1 = [0u8, 2, 1, 3][(key % 4) as usize];
                let l2 = [5u8, 5, 0, 2][((key / 4) % 4) as usize];
                let primed = (key / 16) % 2 == 1;
                let o1 = [Outcome::Fragments, Outcome::HeaderOnly][((key / 32) % 2) as usize];
                for filler in 0..3usize {
                    for reset in [true, false] {
                        let mut h: Vec<Op> = Vec::new();
                        if primed {
                            h.push(Op::Enc { label: l1, outcome: Outcome::Fits, ext: false });
                        }
                        h.push(Op::Enc { label: l1, outcome: o1, ext: false });
                        for _ in 0..filler {
                            h.push(Op::Enc { label: 4, outcome: Outcome::TooSmall, ext: false });
                        }
                        h.push(Op::SameId);
                        if reset {
                            h.push(Op::Reset);
                        }
                        h.push(Op::Enc { label: l2, outcome: Outcome::Fragments, ext: false });
                        h.extend([Op::Cont, Op::Cont, Op::ContStale, Op::Enc { label: l1, outcome: Outcome::Fits, ext: false }]);
                        let ex = run_history(&h, false, rep, &replay);
                        rep.count_n("c04.packets", ex.emitted_packets);
                        rep.count("c04.restart-scripts");
                        rep.nontrivial(mix(0x2E57, mix(key, (filler * 2 + reset as usize) as u64)));
                    }
                }
            }
            "random" => {
                let n = 50 + rng.below(1950);
                let h: Vec<Op> = (0..n).map(|_| random_op(&mut rng, true)).collect();
                let ex = run_history(&h, false, rep, &replay);
                rep.count_n("c04.packets", ex.emitted_packets);
                rep.count_n("c04.deliveries", ex.deliveries);
                rep.count_n("c04.failed-calls", ex.failed_calls);
                rep.count_n("c04.substitutions", ex.substitutions);
                rep.count("c04.histories");
                if ex.deliveries > 0 {
                    rep.nontrivial(mix(0xC04, fnv(hist_str(&h).as_bytes())));
                }
                if key == 0 {
                    rep.sample(|| format!("random: {} operations starting [{}] -> {} packets, {} deliveries", n, hist_str(&h[..6]), ex.emitted_packets, ex.deliveries));
                }
            }
            "rxstreams" => {
                let n = 20 + rng.below(60);
                let h: Vec<Op> = (0..n).map(|_| random_op(&mut rng, false)).collect();
                let mut sink = Report::new();
                let ex = run_history(&h, true, &mut sink, &replay);
                let mut stream: Vec<Vec<u8>> = ex.record.unwrap_or_default();
                if stream.is_empty() {
                    return;
                }
                // mutate
                let muts = 1 + rng.below(6);
                for _ in 0..muts {
                    if stream.is_empty() {
                        break;
                    }
                    let i = rng.below(stream.len());
                    let sel = if stream[i].is_empty() { rng.below(3) } else { rng.below(8) };
                    match sel {
                        0 => {
                            stream.remove(i);
                        }
                        1 => {
                            let p = stream[i].clone();
                            stream.insert(i, p);
                        }
                        2 => {
                            let j = rng.below(stream.len());
                            stream.swap(i, j);
                        }
                        3 => {
                            let l = stream[i].len();
                            let o = rng.below(l);
                            stream[i][o] ^= 1 << rng.below(8);
                        }
                        4 => {
                            let junk_len = rng.below(12);
                            let junk = rng.bytes(junk_len);
                            stream.insert(i, junk);
                        }
                        5 => stream.insert(i, vec![0u8; 2 + rng.below(6)]),
                        6 => {
                            // force the label type bits to re-use
                            stream[i][0] |= 0x30;
                        }
                        _ => {
                            let l = stream[i].len();
                            let cut = rng.below(l + 1);
                            stream[i].truncate(cut);
                        }
                    }
                }
                let table = MandTable::none();
                // storage is sometimes scarce: packets rejected for lack of storage sit between a
                // label-carrying packet and a re-use packet
                let scarce = rng.chance(1, 2);
                let mut dec = plain_dec(4, 64, if scarce { 1 } else { 6 }, 64, table.clone());
                let mut rx = RxSpec::new(table);
                let mut resolved = 0u64;
                for (i, p) in stream.iter().enumerate() {
                    if rng.chance(1, 25) {
                        dec.reset_last_label();
                        rx.reset_label();
                    }
                    rep.eval();
                    let before = rep.get("rx.c04.reuse-resolved-ok");
                    let res = dec_guard(&mut dec, p);
                    if res.is_err() {
                        rep.count("c04.rxstreams.panic");
                        break;
                    }
                    rx.observe(p, &res, RX_C04, "rxstream", rep, &|| format!("{} step={}", replay_s, i));
                    resolved += rep.get("rx.c04.reuse-resolved-ok") - before;
                    if let Ok(Err((dvb_gse_rust::gse_decap::DecapError::ErrorMemory(_), _))) = &res {
                        rep.count("c04.rxstreams.rejected-by-memory");
                    }
                    if let Ok(Ok((dvb_gse_rust::gse_decap::DecapStatus::CompletedPkt(b, _), _))) = res {
                        if !scarce || rng.chance(1, 2) {
                            let _ = dec.provision_storage(b);
                        }
                    }
                    if scarce && rng.chance(1, 3) {
                        let _ = dec.provision_storage(vec![0u8; 64].into_boxed_slice());
                    }
                }
                rep.count("c04.rxstreams");
                if resolved > 0 {
                    rep.nontrivial(mix(0x4C3, fnv(&stream.concat())));
                }
                if key == 1 {
                    rep.sample(|| format!("rxstream: {} packets after {} mutations, first {} -> {} re-use labels resolved consistently", stream.len(), muts, hex_short(&stream[0], 24), resolved));
                }
            }
            _ => {}
        }
    }
    fn floors(&self, _cx: &Cx, rep: &mut Report) {
        for k in ["c04.deliveries", "c04.substitutions", "c04.failed-calls", "rx.c04.reuse-resolved-ok", "c04.rxstreams.rejected-by-memory"] {
            if rep.get(k) == 0 {
                rep.floors_missing.push(format!("C04 floor: counter {} is 0", k));
            }
        }
    }
}
