//! C14 — the 16-bit fixed header codec is a bijection on non-padding headers.
//! Both directions are closed exhaustively: all 65 536 words, all 4 x 4 x 4096 triples.

use crate::mon::guard;
use crate::report::Report;
use crate::wire;
use crate::{Cx, Gen, Property};
use dvb_gse_rust::gse_decap::read_gse_header;
use dvb_gse_rust::gse_encap::generate_gse_header;
use dvb_gse_rust::label::LabelType;

pub struct C14;
pub static P: C14 = C14;

fn lt_idx(l: &LabelType) -> u8 {
    match l {
        LabelType::SixBytesLabel => 0,
        LabelType::ThreeBytesLabel => 1,
        LabelType::Broadcast => 2,
        LabelType::ReUse => 3,
    }
}

fn lt_val(i: u8) -> LabelType {
    match i {
        0 => LabelType::SixBytesLabel,
        1 => LabelType::ThreeBytesLabel,
        2 => LabelType::Broadcast,
        _ => LabelType::ReUse,
    }
}

fn kind_of_debug(s: &str) -> Option<wire::Kind> {
    match s {
        "CompletePkt" => Some(wire::Kind::Complete),
        "FirstFragPkt" => Some(wire::Kind::First),
        "IntermediateFragPkt" => Some(wire::Kind::Inter),
        "EndFragPkt" => Some(wire::Kind::End),
        _ => None,
    }
}

impl Property for C14 {
    fn id(&self) -> &'static str {
        "C14"
    }
    fn rule(&self) -> &'static str {
        "gen words: every 16-bit header word w (key = w>>8, 256 words per key); gen triples: every (kind, label type, length) triple (key = kind*4+lt, 4096 lengths per key). gen decap-view: every word as the first two bytes of buffers of 2..8 bytes, of the announced packet length -1/+0/+1 and of 4100 bytes (zero or 0xA5 filled): decap never panics, answers Padding consuming the buffer, and the peek answers ErrHeaderRead, exactly for the padding pattern. gen emit-view: the encoder as used by encap / encap_ext / encap_frag over buffers 4088..=4104 and up to 70000 bytes: the header word of every reported packet decodes to the reported length - 2, the reported kind and the label type written (also when the preceding packet carried the same label, and along runs of one label under re-use limits 0,1,2,3,5: the GSE length must account for exactly the label bytes the announced type implies); in decap-view a train whose continuation header words carry every combination of label-type bits is either refused at that packet or delivered intact (the GSE length used is the 12-bit field), and a long-lived receiver also sees a padding buffer before every short buffer and must not answer Padding for the next header word. A case is non-trivial when the word / triple is not the padding pattern (it exercises decode+re-encode); fingerprint = the word or the triple."
    }
    fn gens(&self, _cx: &Cx) -> Vec<Gen> {
        vec![Gen { name: "words", count: 256, exhaustive: true }, Gen { name: "triples", count: 16, exhaustive: true }, Gen { name: "decap-view", count: 256, exhaustive: true }, Gen { name: "emit-view", count: 4 * 3 + 4, exhaustive: true }]
    }
    fn run_key(&self, cx: &Cx, gen: &str, key: u64, rep: &mut Report) {
        let replay = |k: u64| format!("gen={} key={} seed={} profile={}", gen, k, cx.seed, cx.profile);
        match gen {
            "words" => {
                for lo in 0..256u64 {
                    let w = ((key << 8) | lo) as u16;
                    rep.eval();
                    let r = guard(|| read_gse_header(w));
                    let pad = wire::is_padding_word(w);
                    match r {
                        Err(p) => rep.violation("C14", format!("read-panic:{}", crate::mon::panic_class(&p)), || format!("read_gse_header({:#06x}) panicked: {}", w, p), || replay(key)),
                        Ok(None) => {
                            rep.count("words.none");
                            if !pad {
                                rep.violation("C14", "none-for-non-padding".into(), || format!("read_gse_header({:#06x}) = None but the word is not the padding pattern", w), || replay(key));
                            }
                        }
                        Ok(Some((len, kind, lt))) => {
                            rep.count("words.some");
                            if pad {
                                rep.violation("C14", "packet-for-padding".into(), || format!("read_gse_header({:#06x}) = Some for the padding pattern", w), || replay(key));
                                continue;
                            }
                            rep.nontrivial(w as u64);
                            // independent reading
                            let wk = wire::Kind::from_word(w);
                            let wl = wire::lt_of_word(w);
                            let wlen = (w & 0x0FFF) as usize;
                            let kd = format!("{:?}", kind);
                            if kind_of_debug(&kd) != Some(wk) || lt_idx(&lt) != wl || len != wlen {
                                rep.violation("C14", "decode-mismatch".into(), || format!("read_gse_header({:#06x}) = ({},{},{:?}) but TS 102 606 reads ({},{:?},lt={})", w, len, kd, lt, wlen, wk, wl), || replay(key));
                            }
                            if len > 4095 {
                                rep.violation("C14", "length-out-of-range".into(), || format!("read_gse_header({:#06x}) length {}", w, len), || replay(key));
                                continue;
                            }
                            let back = guard(|| generate_gse_header(&kind, &lt, len as u16));
                            match back {
                                Err(p) => rep.violation("C14", "generate-panic".into(), || format!("generate_gse_header panicked for decoded {:#06x}: {}", w, p), || replay(key)),
                                Ok(b) => {
                                    if b != w {
                                        rep.violation("C14", "reencode-mismatch".into(), || format!("generate(read({:#06x})) = {:#06x}", w, b), || replay(key));
                                    }
                                }
                            }
                            if lo == 0x55 {
                                rep.sample(|| format!("word {:#06x} -> ({}, {}, lt={}) -> {:#06x}", w, len, kd, wl, w));
                            }
                        }
                    }
                }
            }
            "decap-view" => {
                // the same rule seen through the two functions that read the header word of a buffer: for every
                // word, in buffers of 2, 3 and 4100 bytes (the word followed by zeros), decap answers Padding
                // (consuming the whole buffer) and the peek answers ErrHeaderRead exactly for the padding pattern
                use crate::util::*;
                use dvb_gse_rust::gse_decap::{DecapStatus, GetLabelorFragIdError};
                // one receiver lives through the whole key and sees a padding buffer before every word: what it answered
                // for padding must not stick to the next header word
                let mut shared = plain_dec(2, 16, 4, 16, wire::MandTable::none());
                // reassembly view: the GSE length of a continuation packet is the 12-bit field, whatever its label-type
                // bits say: a train whose intermediate / end header words carry label type lt_i / lt_e (every
                // combination, fragment id = key) is either refused at that packet or delivers exactly the PDU
                {
                    let fr = crate::refcrc::FastRef::new();
                    let id = key as u8;
                    let pdu: Vec<u8> = (0..40u8).map(|i| i.wrapping_mul(3) ^ id).collect();
                    // (an intermediate header word with label type 00 is the padding pattern: not a continuation packet)
                    for lt_i in 1..4u16 {
                        for lt_e in 0..4u16 {
                            let mut t = crate::hostile::mk_train(&fr, 2, &[], id, 0x0800, &pdu, &[10, 25]);
                            t[1][0] = (t[1][0] & 0xCF) | ((lt_i as u8) << 4);
                            t[2][0] = (t[2][0] & 0xCF) | ((lt_e as u8) << 4);
                            let mut d = plain_dec(2, 64, 2, 64, wire::MandTable::none());
                            let mut refused = false;
                            let mut delivered = false;
                            for p in &t {
                                rep.eval();
                                match dec_guard(&mut d, p) {
                                    Ok(Ok((DecapStatus::CompletedPkt(b, m), n))) => {
                                        delivered = n == p.len() && m.pdu_len() == pdu.len() && b[..pdu.len()] == pdu[..];
                                    }
                                    Ok(Ok((DecapStatus::FragmentedPkt(_), n))) if n == p.len() => {}
                                    Ok(Err(_)) if wire::lt_of_word(u16::from_be_bytes([p[0], p[1]])) != 3 && !refused => {
                                        refused = true;
                                        break;
                                    }
                                    other => {
                                        rep.violation("C14", "reassembly-view:packet".into(), || format!("train with continuation label-type bits {}/{} (fragment id {}): packet {} -> {}", lt_i, lt_e, id, crate::rng::hex_short(p, 16), dec_res_str(&other)), || replay(key));
                                        refused = true;
                                        break;
                                    }
                                }
                            }
                            if !refused && !delivered {
                                rep.violation("C14", "reassembly-view:accepted-but-not-delivered".into(), || format!("train with continuation label-type bits {}/{} (fragment id {}): every packet was accepted but the PDU was not delivered intact", lt_i, lt_e, id), || replay(key));
                            }
                            rep.nontrivial(0x6_0000_0000 + (key << 8) + (lt_i << 2 | lt_e) as u64);
                        }
                    }
                }
                for lo in 0..256u64 {
                    let w = ((key << 8) | lo) as u16;
                    let pad = wire::is_padding_word(w);
                    // 2, 3 bytes; 4..8 bytes; exactly the announced packet, one byte less / more; a frame-sized buffer
                    let pkt = (w & 0x0FFF) as usize + 2;
                    let mut lens = vec![2usize, 3, 4, 5, 6, 7, 8, pkt.saturating_sub(1).max(2), pkt, pkt + 1, 4100];
                    lens.sort();
                    lens.dedup();
                    for blen in lens {
                        rep.eval();
                        let fill = if (lo + blen as u64) % 3 == 0 { 0xA5u8 } else { 0 };
                        let mut buf = vec![fill; blen];
                        buf[..2].copy_from_slice(&w.to_be_bytes());
                        let mut d = plain_dec(2, 16, 1, 16, wire::MandTable::none());
                        let pk = guard(|| d.get_label_or_frag_id(&buf));
                        let r = dec_guard(&mut d, &buf);
                        if !pad && blen <= 8 {
                            let _ = dec_guard(&mut shared, &[0u8, 0, 0, 0]);
                            let rs = dec_guard(&mut shared, &buf);
                            rep.eval();
                            if matches!(&rs, Ok(Ok((DecapStatus::Padding, _)))) {
                                rep.violation("C14", "decap-padding-for-non-padding-word:after-padding".into(), || format!("a receiver that has just seen padding answers Padding for a {}-byte buffer starting with {:#06x}", blen, w), || replay(key));
                            }
                            if let Ok(Ok((DecapStatus::CompletedPkt(b, _), _))) = rs {
                                let _ = shared.provision_storage(b);
                            }
                        }
                        if let Err(p) = &r {
                            // "reading any of the 65536 fixed-header values never panics", seen through decap
                            rep.violation("C14", format!("decap-view-panic:{}", crate::mon::panic_class(p)), || format!("decap of a {}-byte buffer starting with {:#06x} panicked: {}", blen, w, p), || replay(key));
                            continue;
                        }
                        let is_padding_status = matches!(&r, Ok(Ok((DecapStatus::Padding, n))) if *n == blen);
                        let any_padding = matches!(&r, Ok(Ok((DecapStatus::Padding, _))));
                        if pad && !is_padding_status {
                            rep.violation("C14", format!("decap-padding-pattern-not-padding:len{}", if blen > 3 { 4 } else { blen }), || format!("decap of a {}-byte buffer starting with the padding pattern {:#06x} = {}", blen, w, dec_res_str(&r)), || replay(key));
                        }
                        if !pad && any_padding {
                            rep.violation("C14", "decap-padding-for-non-padding-word".into(), || format!("decap of a {}-byte buffer starting with {:#06x} = Padding", blen, w), || replay(key));
                        }
                        match pk {
                            Err(p) => rep.violation("C14", "peek-panic".into(), || format!("get_label_or_frag_id panicked on word {:#06x}: {}", w, p), || replay(key)),
                            Ok(res) => {
                                let hdr_err = res == Err(GetLabelorFragIdError::ErrHeaderRead);
                                if pad != hdr_err {
                                    rep.violation("C14", format!("peek-padding-rule:{}", if pad { "padding-word-read-as-packet" } else { "packet-word-read-as-padding" }), || format!("get_label_or_frag_id on a {}-byte buffer starting with {:#06x} = {:?}", blen, w, res), || replay(key));
                                }
                            }
                        }
                        if !pad {
                            rep.nontrivial(0x2_0000_0000 + ((w as u64) << 13) + blen as u64);
                        }
                    }
                }
            }
            "emit-view" if key >= 12 => {
                // runs of packets with ONE label under a re-use limit N: packets 2..=N+1 re-use the label, packet N+2
                // carries it again; for each packet the label type announced must be the label layout written
                use crate::util::*;
                use dvb_gse_rust::gse_encap::{EncapMetadata, EncapStatus, Encapsulator};
                use dvb_gse_rust::header_extension::Extension;
                use dvb_gse_rust::label::Label;
                let k = key - 12;
                let lti = (k % 2) as u8;
                let call = (k / 2) % 2; // 0 encap, 1 encap_ext with an optional extension
                let label = if lti == 0 { Label::SixBytesLabel([1, 2, 3, 4, 5, 6]) } else { Label::ThreeBytesLabel([7, 8, 9]) };
                for nmax in [0u8, 1, 2, 3, 5] {
                    for fragmenting in [false, true] {
                        let mut enc = Encapsulator::new(dvb_gse_rust::crc::DefaultCrc {});
                        if nmax > 0 {
                            enc.enable_re_use_label_with_max_consecutive(nmax);
                        }
                        let pl = if fragmenting { 300usize } else { 20 };
                        let pdu = sentinel(pl, 9);
                        for i in 0..(nmax as usize + 4) {
                            rep.eval();
                            let mut buf = vec![0u8; 64];
                            let exts = vec![Extension::new(0x0233, &[0xE1, 0xE2]).unwrap()];
                            let ext_extra = if call == 1 { 4usize } else { 0 };
                            let meta = EncapMetadata::new(0x0800, label);
                            let r = if call == 0 { enc_guard(&mut enc, &pdu, i as u8, meta, &mut buf) } else { enc_ext_guard(&mut enc, &pdu, i as u8, meta, &mut buf, exts) };
                            let (n, carried, first) = match r {
                                Ok(Ok(EncapStatus::CompletedPkt(n))) => (n as usize, pl, false),
                                Ok(Ok(EncapStatus::FragmentedPkt(n, c))) => (n as usize, c.len_pdu_frag() as usize, true),
                                _ => {
                                    rep.count("emit.run-call-failed");
                                    break;
                                }
                            };
                            if n < 2 || n > buf.len() {
                                break;
                            }
                            let w = u16::from_be_bytes([buf[0], buf[1]]);
                            let wl = wire::lt_of_word(w);
                            let glen = (w & 0x0FFF) as usize;
                            let fixed = if first { 3 } else { 0 } + 2 + wire::lt_len(wl) + ext_extra;
                            rep.nontrivial(0x5_0000_0000 + ((w as u64) << 12) + (key << 8) + ((nmax as u64) << 4) + i as u64);
                            if glen + 2 != n || glen != fixed + carried || (wl != lti && wl != 3) {
                                rep.violation("C14", format!("emit-view:run:{}:label-type-vs-length", if call == 0 { "encap" } else { "encap_ext" }), || format!("packet {} of a run with label type {} under re-use limit {} ({}, reported {} bytes): header word {:#06x} announces label type {} and GSE length {}, but the fields of such a packet with {} payload bytes take {} bytes", i + 1, lti, nmax, if first { "first fragment" } else { "complete" }, n, w, wl, glen, carried, fixed + carried), || replay(key));
                                break;
                            }
                            rep.count("emit.run-packets");
                        }
                    }
                }
            }
            "emit-view" => {
                // the encoder seen through the functions that call it: every packet the encapsulator reports
                // starts with a header word that decodes (independent reading) to the reported length - 2,
                // the reported kind and the label type written; buffers around and above the 4097-byte limit
                use crate::util::*;
                use dvb_gse_rust::gse_encap::{EncapMetadata, EncapStatus, Encapsulator};
                use dvb_gse_rust::header_extension::Extension;
                use dvb_gse_rust::label::Label;
                let lti = (key % 4) as u8;
                let call = key / 4; // 0 encap, 1 encap_ext (optional extension), 2 encap_ext (final mandatory extension)
                let label = match lti {
                    0 => Label::SixBytesLabel([1, 2, 3, 4, 5, 6]),
                    1 => Label::ThreeBytesLabel([7, 8, 9]),
                    2 => Label::Broadcast,
                    _ => Label::ReUse,
                };
                let bufs: Vec<usize> = (4088usize..=4104).chain([13, 14, 20, 100, 1000, 4000, 8192, 65535, 65536, 65537, 69632, 70000]).collect();
                let pdus = [0usize, 1, 50, 4000, 4070, 4080, 4090, 4095, 4100, 5000, 9000, 20000];
                for &bl in &bufs {
                    for &pl in &pdus {
                      // primed: the preceding packet carried the same 3- / 6-byte label, so this one re-uses it
                      for primed in [false, true] {
                        if primed && lti >= 2 {
                            continue;
                        }
                        rep.eval();
                        let pdu = sentinel(pl, 7);
                        let mut enc = Encapsulator::new(dvb_gse_rust::crc::DefaultCrc {});
                        if primed {
                            let mut tmp = vec![0u8; 64];
                            let _ = enc_guard(&mut enc, &[1, 2, 3], 0, EncapMetadata::new(0x0800, label), &mut tmp);
                        }
                        if lti == 3 {
                            // an explicit re-use label needs a preceding packet
                            let mut tmp = vec![0u8; 64];
                            let _ = enc_guard(&mut enc, &[1, 2, 3], 0, EncapMetadata::new(0x0800, Label::ThreeBytesLabel([7, 8, 9])), &mut tmp);
                        }
                        let mut buf = vec![0x5Au8; bl];
                        let (ptype, exts) = match call {
                            0 => (0x0800u16, vec![]),
                            1 => (0x0800u16, vec![Extension::new(0x0233, &[0xE1, 0xE2]).unwrap()]),
                            _ => (0x0081u16, vec![Extension::new(0x0081, &[]).unwrap()]),
                        };
                        let meta = EncapMetadata::new(ptype, label);
                        let r = if call == 0 { enc_guard(&mut enc, &pdu, 9, meta, &mut buf) } else { enc_ext_guard(&mut enc, &pdu, 9, meta, &mut buf, exts) };
                        let ext_extra = match call {
                            0 => 0usize,
                            1 => 4,
                            _ => 0,
                        };
                        // payload carried by a start packet: the whole PDU (complete) or what the context counts (first)
                        let mut check = |what: &str, n: usize, want_kind: &[wire::Kind], buf: &[u8], carried: Option<usize>, rep: &mut Report| {
                            if n < 2 || n > buf.len() {
                                rep.violation("C14", format!("emit-view:{}:reported-length", what), || format!("{} reported {} bytes in a {}-byte buffer", what, n, buf.len()), || replay(key));
                                return;
                            }
                            let w = u16::from_be_bytes([buf[0], buf[1]]);
                            let k = wire::Kind::from_word(w);
                            let glen = (w & 0x0FFF) as usize;
                            rep.nontrivial(0x4_0000_0000 + ((w as u64) << 8) + key);
                            if wire::is_padding_word(w) || glen + 2 != n || !want_kind.contains(&k) {
                                rep.violation("C14", format!("emit-view:{}:header-word", what), || format!("{} (label type {}, buffer {}, pdu {}) reported {} bytes of kind {:?} but the header word {:#06x} reads kind {:?}, GSE length {}", what, lti, buf.len(), pl, n, want_kind, w, k, glen), || replay(key));
                            }
                            let wl = wire::lt_of_word(w);
                            if matches!(k, wire::Kind::Complete | wire::Kind::First) && wl != lti && !(primed && wl == 3) {
                                rep.violation("C14", format!("emit-view:{}:label-type", what), || format!("{}: label type bits {} for a label of type {}", what, wl, lti), || replay(key));
                            }
                            // the label type announced is the label type written: the GSE length accounts for exactly
                            // the label bytes that the announced type implies
                            if let (Some(c), true) = (carried, matches!(k, wire::Kind::Complete | wire::Kind::First)) {
                                let fixed = if k == wire::Kind::First { 3 } else { 0 } + 2 + wire::lt_len(wl) + ext_extra;
                                if glen != fixed + c {
                                    rep.violation("C14", format!("emit-view:{}:label-type-vs-length", what), || format!("{} (label type {}, re-used: {}, buffer {}, pdu {}): header word {:#06x} announces label type {} and GSE length {}, but the fields of such a packet with {} payload bytes take {} bytes", what, lti, primed, buf.len(), pl, w, wl, glen, c, fixed + c), || replay(key));
                                }
                            }
                        };
                        let what = ["encap", "encap_ext", "encap_ext-final"][call as usize];
                        match r {
                            Err(p) => rep.violation("C14", format!("emit-view:{}:panic", what), || format!("{} panicked: {}", what, p), || replay(key)),
                            Ok(Err(_)) => rep.count("emit.err"),
                            Ok(Ok(EncapStatus::CompletedPkt(n))) => {
                                rep.count("emit.complete");
                                check(what, n as usize, &[wire::Kind::Complete], &buf, Some(pl), rep);
                            }
                            Ok(Ok(EncapStatus::FragmentedPkt(n, mut ctx))) => {
                                rep.count("emit.first");
                                check(what, n as usize, &[wire::Kind::First], &buf, Some(ctx.len_pdu_frag() as usize), rep);
                                // continuations into the same family of buffers
                                for step in 0..12 {
                                    let bl2 = bufs[(step * 7 + bl) % bufs.len()];
                                    let mut b2 = vec![0x5Au8; bl2];
                                    match enc_frag_guard(&enc, &pdu, &ctx, &mut b2) {
                                        Err(p) => {
                                            rep.violation("C14", "emit-view:encap_frag:panic".into(), || format!("encap_frag panicked: {}", p), || replay(key));
                                            break;
                                        }
                                        Ok(Err(_)) => {}
                                        Ok(Ok(EncapStatus::CompletedPkt(n))) => {
                                            rep.count("emit.end");
                                            check("encap_frag", n as usize, &[wire::Kind::End], &b2, None, rep);
                                            break;
                                        }
                                        Ok(Ok(EncapStatus::FragmentedPkt(n, c2))) => {
                                            rep.count("emit.inter");
                                            check("encap_frag", n as usize, &[wire::Kind::Inter], &b2, None, rep);
                                            ctx = c2;
                                        }
                                    }
                                }
                            }
                        }
                      }
                    }
                }
            }
            "triples" => {
                let kinds = [wire::Kind::Complete, wire::Kind::First, wire::Kind::Inter, wire::Kind::End];
                let wk = kinds[(key / 4) as usize];
                let lti = (key % 4) as u8;
                // obtain the crate's (unnameable) PktType value for this kind from its own decoder,
                // using a word that is never padding (label type 3), and cross-check by Debug name
                let probe = guard(|| read_gse_header(wk.bits() | 0x3000));
                let kind = match probe {
                    Ok(Some((_, k, _))) if kind_of_debug(&format!("{:?}", k)) == Some(wk) => k,
                    other => {
                        rep.violation("C14", "kind-probe".into(), || format!("read_gse_header({:#06x}) did not yield kind {:?}: {:?}", wk.bits() | 0x3000, wk, other.map(|o| o.map(|x| format!("{:?}", x.1)))), || replay(key));
                        return;
                    }
                };
                for len in 0..4096usize {
                    rep.eval();
                    let lt = lt_val(lti);
                    let expect = wire::header_word(wk, lti, len);
                    let w = match guard(|| generate_gse_header(&kind, &lt, len as u16)) {
                        Ok(w) => w,
                        Err(p) => {
                            rep.violation("C14", "generate-panic".into(), || format!("generate_gse_header({:?},{},{}) panicked: {}", wk, lti, len, p), || replay(key));
                            continue;
                        }
                    };
                    if w != expect {
                        rep.violation("C14", "encode-mismatch".into(), || format!("generate_gse_header({:?},lt={},{}) = {:#06x}, TS 102 606 says {:#06x}", wk, lti, len, w, expect), || replay(key));
                    }
                    if wire::is_padding_word(expect) {
                        rep.count("triples.padding-pattern");
                        continue;
                    }
                    rep.nontrivial(0x1_0000 + ((key << 12) | len as u64));
                    match guard(|| read_gse_header(w)) {
                        Ok(Some((l2, k2, t2))) => {
                            if l2 != len || k2 != kind || lt_idx(&t2) != lti {
                                rep.violation("C14", "decode-of-encode-mismatch".into(), || format!("read(generate({:?},lt={},{})) = ({},{:?},lt={})", wk, lti, len, l2, k2, lt_idx(&t2)), || replay(key));
                            }
                        }
                        Ok(None) => rep.violation("C14", "decode-of-encode-none".into(), || format!("read(generate({:?},lt={},{})) = None", wk, lti, len), || replay(key)),
                        Err(p) => rep.violation("C14", "read-panic".into(), || format!("read_gse_header({:#06x}) panicked: {}", w, p), || replay(key)),
                    }
                    if len == 1234 {
                        rep.sample(|| format!("triple ({:?}, lt={}, {}) -> {:#06x} -> same triple", wk, lti, len, w));
                    }
                }
            }
            _ => {}
        }
    }
    fn floors(&self, _cx: &Cx, rep: &mut Report) {
        if rep.get("words.some") + rep.get("words.none") != 65536 {
            rep.floors_missing.push("not all 65536 words evaluated".into());
        }
    }
}
