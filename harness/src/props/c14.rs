//! C14 — the 16-bit fixed header codec is a bijection on non-padding headers.
//! Both directions are closed exhaustively: all 65 536 words, all 4 x 4 x 4096 triples.

use crate::mon::guard;
use crate::report::Report;
use crate::wire;
use crate::{Cx, Gen, Property};
use dvb_gse_rust::gse_decap::read_gse_header;
use dvb_gse_rust::gse_encap::generate_gse_header;
use dvb_gse_rust::label::LabelType;

pub struct C14;
pub static P: C14 = C14;

fn lt_idx(l: &LabelType) -> u8 {
    match l {
        LabelType::SixBytesLabel => 0,
        LabelType::ThreeBytesLabel => 1,
        LabelType::Broadcast => 2,
        LabelType::ReUse => 3,
    }
}

fn lt_val(i: u8) -> LabelType {
    match i {
        0 => LabelType::SixBytesLabel,
        1 => LabelType::ThreeBytesLabel,
        2 => LabelType::Broadcast,
        _ => LabelType::ReUse,
    }
}

fn kind_of_debug(s: &str) -> Option<wire::Kind> {
    match s {
        "CompletePkt" => Some(wire::Kind::Complete),
        "FirstFragPkt" => Some(wire::Kind::First),
        "IntermediateFragPkt" => Some(wire::Kind::Inter),
        "EndFragPkt" => Some(wire::Kind::End),
        _ => None,
    }
}

impl Property for C14 {
    fn id(&self) -> &'static str {
        "C14"
    }
    fn rule(&self) -> &'static str {
        "gen words: every 16-bit header word w (key = w>>8, 256 words per key); gen triples: every (kind, label type, length) triple (key = kind*4+lt, 4096 lengths per key). gen decap-view: every word as the first two bytes of a 2-, 3- and 4100-byte buffer: decap answers Padding consuming the buffer, and the peek answers ErrHeaderRead, exactly for the padding pattern. A case is non-trivial when the word / triple is not the padding pattern (it exercises decode+re-encode); fingerprint = the word or the triple."
    }
    fn gens(&self, _cx: &Cx) -> Vec<Gen> {
        vec![Gen { name: "words", count: 256, exhaustive: true }, Gen { name: "triples", count: 16, exhaustive: true }, Gen { name: "decap-view", count: 256, exhaustive: true }]
    }
    fn run_key(&self, cx: &Cx, gen: &str, key: u64, rep: &mut Report) {
        let replay = |k: u64| format!("gen={} key={} seed={} profile={}", gen, k, cx.seed, cx.profile);
        match gen {
            "words" => {
                for lo in 0..256u64 {
                    let w = ((key << 8) | lo) as u16;
                    rep.eval();
                    let r = guard(|| read_gse_header(w));
                    let pad = wire::is_padding_word(w);
                    match r {
                        Err(p) => rep.violation("C14", format!("read-panic:{}", crate::mon::panic_class(&p)), || format!("read_gse_header({:#06x}) panicked: {}", w, p), || replay(key)),
                        Ok(None) => {
                            rep.count("words.none");
                            if !pad {
                                rep.violation("C14", "none-for-non-padding".into(), || format!("read_gse_header({:#06x}) = None but the word is not the padding pattern", w), || replay(key));
                            }
                        }
                        Ok(Some((len, kind, lt))) => {
                            rep.count("words.some");
                            if pad {
                                rep.violation("C14", "packet-for-padding".into(), || format!("read_gse_header({:#06x}) = Some for the padding pattern", w), || replay(key));
                                continue;
                            }
                            rep.nontrivial(w as u64);
                            // independent reading
                            let wk = wire::Kind::from_word(w);
                            let wl = wire::lt_of_word(w);
                            let wlen = (w & 0x0FFF) as usize;
                            let kd = format!("{:?}", kind);
                            if kind_of_debug(&kd) != Some(wk) || lt_idx(&lt) != wl || len != wlen {
                                rep.violation("C14", "decode-mismatch".into(), || format!("read_gse_header({:#06x}) = ({},{},{:?}) but TS 102 606 reads ({},{:?},lt={})", w, len, kd, lt, wlen, wk, wl), || replay(key));
                            }
                            if len > 4095 {
                                rep.violation("C14", "length-out-of-range".into(), || format!("read_gse_header({:#06x}) length {}", w, len), || replay(key));
                                continue;
                            }
                            let back = guard(|| generate_gse_header(&kind, &lt, len as u16));
                            match back {
                                Err(p) => rep.violation("C14", "generate-panic".into(), || format!("generate_gse_header panicked for decoded {:#06x}: {}", w, p), || replay(key)),
                                Ok(b) => {
                                    if b != w {
                                        rep.violation("C14", "reencode-mismatch".into(), || format!("generate(read({:#06x})) = {:#06x}", w, b), || replay(key));
                                    }
                                }
                            }
                            if lo == 0x55 {
                                rep.sample(|| format!("word {:#06x} -> ({}, {}, lt={}) -> {:#06x}", w, len, kd, wl, w));
                            }
                        }
                    }
                }
            }
            "decap-view" => {
                // the same rule seen through the two functions that read the header word of a buffer: for every
                // word, in buffers of 2, 3 and 4100 bytes (the word followed by zeros), decap answers Padding
                // (consuming the whole buffer) and the peek answers ErrHeaderRead exactly for the padding pattern
                use crate::util::*;
                use dvb_gse_rust::gse_decap::{DecapStatus, GetLabelorFragIdError};
                for lo in 0..256u64 {
                    let w = ((key << 8) | lo) as u16;
                    let pad = wire::is_padding_word(w);
                    for blen in [2usize, 3, 4100] {
                        rep.eval();
                        let mut buf = vec![0u8; blen];
                        buf[..2].copy_from_slice(&w.to_be_bytes());
                        let mut d = plain_dec(2, 16, 1, 16, wire::MandTable::none());
                        let pk = guard(|| d.get_label_or_frag_id(&buf));
                        let r = dec_guard(&mut d, &buf);
                        let is_padding_status = matches!(&r, Ok(Ok((DecapStatus::Padding, n))) if *n == blen);
                        let any_padding = matches!(&r, Ok(Ok((DecapStatus::Padding, _))));
                        if pad && !is_padding_status {
                            rep.violation("C14", format!("decap-padding-pattern-not-padding:len{}", if blen > 3 { 4 } else { blen }), || format!("decap of a {}-byte buffer starting with the padding pattern {:#06x} = {}", blen, w, dec_res_str(&r)), || replay(key));
                        }
                        if !pad && any_padding {
                            rep.violation("C14", "decap-padding-for-non-padding-word".into(), || format!("decap of a {}-byte buffer starting with {:#06x} = Padding", blen, w), || replay(key));
                        }
                        match pk {
                            Err(p) => rep.violation("C14", "peek-panic".into(), || format!("get_label_or_frag_id panicked on word {:#06x}: {}", w, p), || replay(key)),
                            Ok(res) => {
                                let hdr_err = res == Err(GetLabelorFragIdError::ErrHeaderRead);
                                if pad != hdr_err {
                                    rep.violation("C14", format!("peek-padding-rule:{}", if pad { "padding-word-read-as-packet" } else { "packet-word-read-as-padding" }), || format!("get_label_or_frag_id on a {}-byte buffer starting with {:#06x} = {:?}", blen, w, res), || replay(key));
                                }
                            }
                        }
                        if !pad {
                            rep.nontrivial(0x2_0000 + ((w as u64) << 2) + (blen as u64 % 4));
                        }
                    }
                }
            }
            "triples" => {
                let kinds = [wire::Kind::Complete, wire::Kind::First, wire::Kind::Inter, wire::Kind::End];
                let wk = kinds[(key / 4) as usize];
                let lti = (key % 4) as u8;
                // obtain the crate's (unnameable) PktType value for this kind from its own decoder,
                // using a word that is never padding (label type 3), and cross-check by Debug name
                let probe = guard(|| read_gse_header(wk.bits() | 0x3000));
                let kind = match probe {
                    Ok(Some((_, k, _))) if kind_of_debug(&format!("{:?}", k)) == Some(wk) => k,
                    other => {
                        rep.violation("C14", "kind-probe".into(), || format!("read_gse_header({:#06x}) did not yield kind {:?}: {:?}", wk.bits() | 0x3000, wk, other.map(|o| o.map(|x| format!("{:?}", x.1)))), || replay(key));
                        return;
                    }
                };
                for len in 0..4096usize {
                    rep.eval();
                    let lt = lt_val(lti);
                    let expect = wire::header_word(wk, lti, len);
                    let w = match guard(|| generate_gse_header(&kind, &lt, len as u16)) {
                        Ok(w) => w,
                        Err(p) => {
                            rep.violation("C14", "generate-panic".into(), || format!("generate_gse_header({:?},{},{}) panicked: {}", wk, lti, len, p), || replay(key));
                            continue;
                        }
                    };
                    if w != expect {
                        rep.violation("C14", "encode-mismatch".into(), || format!("generate_gse_header({:?},lt={},{}) = {:#06x}, TS 102 606 says {:#06x}", wk, lti, len, w, expect), || replay(key));
                    }
                    if wire::is_padding_word(expect) {
                        rep.count("triples.padding-pattern");
                        continue;
                    }
                    rep.nontrivial(0x1_0000 + ((key << 12) | len as u64));
                    match guard(|| read_gse_header(w)) {
                        Ok(Some((l2, k2, t2))) => {
                            if l2 != len || k2 != kind || lt_idx(&t2) != lti {
                                rep.violation("C14", "decode-of-encode-mismatch".into(), || format!("read(generate({:?},lt={},{})) = ({},{:?},lt={})", wk, lti, len, l2, k2, lt_idx(&t2)), || replay(key));
                            }
                        }
                        Ok(None) => rep.violation("C14", "decode-of-encode-none".into(), || format!("read(generate({:?},lt={},{})) = None", wk, lti, len), || replay(key)),
                        Err(p) => rep.violation("C14", "read-panic".into(), || format!("read_gse_header({:#06x}) panicked: {}", w, p), || replay(key)),
                    }
                    if len == 1234 {
                        rep.sample(|| format!("triple ({:?}, lt={}, {}) -> {:#06x} -> same triple", wk, lti, len, w));
                    }
                }
            }
            _ => {}
        }
    }
    fn floors(&self, _cx: &Cx, rep: &mut Report) {
        if rep.get("words.some") + rep.get("words.none") != 65536 {
            rep.floors_missing.push("not all 65536 words evaluated".into());
        }
    }
}
