//! C01 — unfragmented round trip preserves PDU, protocol type and label; encap completes whenever
//! the packet fits the GSE length and the buffer.

use crate::report::Report;
use crate::rng::{hex_short, mix, Rng};
use crate::util::*;
use crate::wire::{self, MandTable};
use crate::{Cx, Gen, Property};
use dvb_gse_rust::crc::DefaultCrc;
use dvb_gse_rust::gse_decap::DecapStatus;
use dvb_gse_rust::gse_encap::{EncapMetadata, EncapStatus, Encapsulator};
use dvb_gse_rust::label::Label;

pub struct C01;
pub static P: C01 = C01;

pub struct Cell<'a> {
    pub pdu: &'a [u8],
    pub ptype: u16,
    pub label: Label,
    /// prime the sender/receiver with a packet carrying the same label first (=> substitution if re-use is on)
    pub prime: bool,
    pub reuse_on: bool,
    pub buf_len: usize,
    pub storage: usize,
    /// the receiver is CONFIGURED for 16-byte PDUs but owns a larger buffer too (a 16-byte buffer on top of the
    /// pool is used up and kept by the application first): its storage can hold the PDU
    mixed: bool,
}

/// run one cell; returns a short outcome class for counters
pub fn run_cell(c: &Cell, big: &mut Vec<u8>, rep: &mut Report, replay: &dyn Fn() -> String) -> &'static str {
    let mut enc = Encapsulator::new(DefaultCrc {});
    if !c.reuse_on {
        enc.disable_re_use_label();
    }
    let mixed = c.mixed && c.pdu.len() > 16 && c.storage >= c.pdu.len();
    let mut dec = if mixed {
        // configured PDU size 16; pool (bottom to top): the large buffer, a 16-byte buffer
        let mut d = plain_dec(1, 16, 0, 16, MandTable::none());
        let _ = d.provision_storage(vec![0u8; c.storage].into_boxed_slice());
        let _ = d.provision_storage(vec![0u8; 16].into_boxed_slice());
        if !c.prime {
            // a tiny broadcast packet uses the 16-byte buffer up; the application keeps it
            let tiny = crate::hostile::mk_complete(2, &[], 0x0800, b"tiny");
            let _ = dec_guard(&mut d, &tiny);
        }
        d
    } else {
        plain_dec(1, c.storage, 1, c.storage, MandTable::none())
    };
    let meta = EncapMetadata::new(c.ptype, c.label);
    let cls = |what: &str| format!("{}:{}{}{}", what, label_kind_name(&c.label), if c.prime { "+primed" } else { "" }, if c.reuse_on { "" } else { ":reuse-off" });
    if c.prime {
        let mut b = [0u8; 64];
        let n = match enc_guard(&mut enc, b"prime!", 9, meta, &mut b) {
            Ok(Ok(EncapStatus::CompletedPkt(n))) => n as usize,
            _ => return "prime-encap-failed",
        };
        match dec_guard(&mut dec, &b[..n]) {
            Ok(Ok((DecapStatus::CompletedPkt(buf, _), _))) => {
                // (mixed pool: the application keeps the 16-byte buffer that carried the priming packet)
                if !mixed {
                    give_back(&mut dec, buf);
                }
            }
            _ => return "prime-decap-failed",
        }
    }
    let full_ll = label_bytes(&c.label).len();
    let plen = c.pdu.len();
    if big.len() < c.buf_len {
        big.resize(c.buf_len, 0);
    }
    let buf = &mut big[..c.buf_len];
    // only the head needs a defined pattern here (C06 checks the tail)
    let head = std::cmp::min(c.buf_len, plen + 16);
    for (i, b) in buf[..head].iter_mut().enumerate() {
        *b = sentinel_byte(i, 0x5A);
    }
    rep.eval();
    let r = enc_guard(&mut enc, c.pdu, 7, meta, buf);
    let st = match &r {
        Err(p) => {
            // totality is C09's clause; here it only matters when a completed packet was mandatory
            if 2 + full_ll + plen <= 4095 && c.buf_len >= 4 + full_ll + plen {
                rep.violation("C01", cls("must-complete:panic"), || format!("encap panicked where a completed packet was mandatory (pdu {}B, buffer {}B): {}", plen, c.buf_len, p), replay);
            }
            return "encap-panic";
        }
        Ok(Err(e)) => {
            if 2 + full_ll + plen <= 4095 && c.buf_len >= 4 + full_ll + plen {
                rep.violation("C01", cls("must-complete:error"), || format!("encap returned {:?} although label ({}B), type and PDU ({}B) fit the GSE length and the buffer ({}B) holds the packet", e, full_ll, plen, c.buf_len), replay);
            }
            return "encap-error";
        }
        Ok(Ok(s)) => s,
    };
    let (n, ctx) = status_parts(st);
    if n < 2 || n > c.buf_len {
        return "bad-reported-length"; // C06's clause
    }
    let w = u16::from_be_bytes([buf[0], buf[1]]);
    let ll_w = wire::lt_len(wire::lt_of_word(w));
    if ctx.is_some() {
        // (a) completeness with the label as written
        if 2 + ll_w + plen <= 4095 && c.buf_len >= 4 + ll_w + plen {
            rep.violation("C01", cls("must-complete:fragmented"), || format!("encap fragmented (reported {}) although type, label as written ({}B) and PDU ({}B) fit 4095 and the buffer ({}B) can hold the packet", n, ll_w, plen, c.buf_len), replay);
            return "fragmented-but-fits";
        }
        return "fragmented";
    }
    // (b) fidelity
    let pkt = &buf[..n];
    let d = dec_guard(&mut dec, pkt);
    match &d {
        Ok(Ok((DecapStatus::CompletedPkt(b, m), consumed))) => {
            let mut bad = Vec::new();
            if *consumed != n {
                bad.push(format!("consumed {} != reported {}", consumed, n));
            }
            if m.pdu_len() != plen {
                bad.push(format!("pdu_len {} != {}", m.pdu_len(), plen));
            }
            if b.len() < plen || &b[..plen] != c.pdu {
                bad.push("PDU bytes differ".into());
            }
            if m.protocol_type() != c.ptype {
                bad.push(format!("protocol type {:#06x} != {:#06x}", m.protocol_type(), c.ptype));
            }
            if m.label() != c.label {
                bad.push(format!("label {} != {}", label_str(&m.label()), label_str(&c.label)));
            }
            if !m.extensions().is_empty() {
                bad.push("extensions reported".into());
            }
            if !bad.is_empty() {
                rep.violation("C01", cls("fidelity"), || format!("round trip altered the PDU: {} (pdu {}B, buffer {}B, storage {}B, packet {})", bad.join("; "), plen, c.buf_len, c.storage, hex_short(pkt, 48)), replay);
                return "fidelity-violation";
            }
            "delivered"
        }
        other => {
            rep.violation("C01", cls("not-delivered"), || format!("completed packet ({}B, pdu {}B, storage {}B) not delivered: {} packet={}", n, plen, c.storage, dec_res_str(other), hex_short(pkt, 48)), replay);
            "not-delivered"
        }
    }
}

pub fn label_kind_name(l: &Label) -> &'static str {
    match l {
        Label::SixBytesLabel(_) => "6B",
        Label::ThreeBytesLabel(_) => "3B",
        Label::Broadcast => "bcast",
        Label::ReUse => "reuse",
    }
}

impl Property for C01 {
    fn id(&self) -> &'static str {
        "C01"
    }
    fn rule(&self) -> &'static str {
        "grid: key = PDU length 0..=4100; for each: 5 label cases (6-byte, 3-byte, broadcast, 6-byte primed, 3-byte primed = re-use substitution when enabled) x 7 buffer sizes (exact-1, exact, exact+1 for the label as written, 4097, 4098, 65536, 70000) x re-use on/off x storage (== PDU, +1, 70000; one cell in seven on a receiver configured for 16-byte PDUs that also owns a buffer of that size, after its 16-byte buffer was used up); random: seeded cells over all protocol types >= 0x0600, 5 content classes, random buffer/storage; longrun: 800 complete packets with one label under re-use limits 0,1,2,3,254,255; traffic: the round trip of a complete packet at the end of a seeded lock-step history (fragment trains in flight or completed in between, re-use substitutions, resets, configuration changes, end packets re-sent from stale contexts which the receiver refuses, failing calls of every kind, fragment ids sharing a receiver slot; one history in four on a receiver short of storage whose application keeps delivered buffers: after a legitimately refused packet the final packet may be refused, but if delivered every field is right); ptypes (thorough): every protocol type 0x0600..=0xFFFF at three PDU sizes. Non-trivial = encap returned a completed packet that was fed to decap and compared (outcome 'delivered'); fingerprint = (pdu length, label case, buffer, re-use, storage) or (ptype,size)."
    }
    fn gens(&self, cx: &Cx) -> Vec<Gen> {
        let mut g = vec![Gen { name: "grid", count: 4101, exhaustive: true }, Gen { name: "random", count: cx.n(100_000, 6_000_000), exhaustive: false }];
        g.push(Gen { name: "traffic", count: cx.n(30_000, 1_000_000), exhaustive: false });
        g.push(Gen { name: "longrun", count: 24, exhaustive: true });
        if !cx.quick() {
            g.push(Gen { name: "ptypes", count: 0x10000 - 0x600, exhaustive: true });
        }
        g
    }
    fn run_key(&self, cx: &Cx, gen: &str, key: u64, rep: &mut Report) {
        let replay = || format!("gen={} key={} seed={} profile={}", gen, key, cx.seed, cx.profile);
        let mut rng = Rng::derive(cx.seed, crate::rng::fnv(gen.as_bytes()), key);
        let mut big: Vec<u8> = Vec::new();
        match gen {
            "grid" => {
                let plen = key as usize;
                let pdu = gen_pdu(&mut rng, plen, (key % 5) as usize);
                let labels: [(Label, bool); 5] = [
                    (gen_label(&mut rng, (key % 2) as usize), false),
                    (gen_label(&mut rng, 2 + (key % 2) as usize), false),
                    (Label::Broadcast, false),
                    (gen_label(&mut rng, 0), true),
                    (gen_label(&mut rng, 2), true),
                ];
                for (li, (label, prime)) in labels.iter().enumerate() {
                    if crate::expired() {
                        return;
                    }
                    for reuse_on in [true, false] {
                        let full = label_bytes(label).len();
                        let written = if *prime && reuse_on { 0 } else { full };
                        let exact = 4 + written + plen;
                        for (bi, buf_len) in [exact.saturating_sub(1), exact, exact + 1, 4097, 4098, 65536, 70000].iter().enumerate() {
                            for (si, storage) in [plen, plen + 1, 70000].iter().enumerate() {
                                // the large sizes are sampled on a sub-grid to bound the work
                                if (*buf_len > 5000 || *storage > 5000) && (plen % 16 != (li as usize * 3 + bi + si) % 16) && !(4080..=4100).contains(&plen) && plen > 16 {
                                    continue;
                                }
                                let ptype = [0x0600u16, 0xFFFF, 0x0800, 0x86DD][(plen + bi) % 4];
                                let cell = Cell { pdu: &pdu, ptype, label: *label, prime: *prime, reuse_on, buf_len: *buf_len, storage: *storage, mixed: (plen + bi + si) % 7 == 0 };
                                let out = run_cell(&cell, &mut big, rep, &replay);
                                rep.count(&format!("grid.{}", out));
                                if out == "delivered" {
                                    rep.nontrivial(mix(mix(plen as u64, li as u64 * 64 + bi as u64 * 8 + si as u64), reuse_on as u64));
                                    if plen == 4089 && li == 0 && bi == 1 && si == 0 && reuse_on {
                                        rep.sample(|| format!("grid: pdu 4089B, 6-byte label, buffer exact ({}B), storage 4089B -> completed packet of 4097B delivered intact", buf_len));
                                    }
                                }
                            }
                        }
                    }
                }
            }
            "random" => {
                let plen = match rng.below(8) {
                    0 => rng.range(4070, 4100),
                    1 => rng.range(0, 8),
                    _ => rng.range(0, 4093),
                };
                let cls5 = rng.below(5);
                let pdu = gen_pdu(&mut rng, plen, cls5);
                let lk = rng.below(N_LABEL_KINDS);
                let label = gen_label(&mut rng, lk);
                let prime = label != Label::Broadcast && rng.chance(1, 3);
                let reuse_on = rng.chance(3, 4);
                let full = label_bytes(&label).len();
                let written = if prime && reuse_on { 0 } else { full };
                let exact = 4 + written + plen;
                let buf_len = match rng.below(4) {
                    0 => exact,
                    1 => exact + rng.below(40),
                    2 => rng.range(exact, 70000),
                    _ => rng.range(4097, 9000),
                };
                let storage = match rng.below(3) {
                    0 => plen,
                    1 => plen + rng.below(100),
                    _ => rng.range(plen, 70000),
                };
                let ptype = gen_user_ptype(&mut rng);
                let mixed = rng.chance(1, 6);
                let cell = Cell { pdu: &pdu, ptype, label, prime, reuse_on, buf_len, storage, mixed };
                let out = run_cell(&cell, &mut big, rep, &replay);
                rep.count(&format!("random.{}", out));
                if out == "delivered" {
                    rep.nontrivial(mix(mix(plen as u64, buf_len as u64), mix(storage as u64, ptype as u64 ^ ((prime as u64) << 20))));
                    if key < 3 {
                        rep.sample(|| format!("random: pdu {}B {} label {} primed={} reuse_on={} ptype {:#06x} buffer {}B storage {}B -> delivered intact", plen, hex_short(&pdu, 16), label_str(&label), prime, reuse_on, ptype, buf_len, storage));
                    }
                }
            }
            "longrun" => {
                // long runs of complete packets with the same label under every kind of re-use limit (incl. the
                // 8-bit boundary 254 / 255): every packet must complete and round-trip with its label
                let n_max = [0u8, 1, 2, 3, 254, 255][(key % 6) as usize];
                let label = gen_label(&mut rng, [0usize, 2, 3, 1][(key / 6) as usize]);
                let mut enc = Encapsulator::new(DefaultCrc {});
                enc.enable_re_use_label_with_max_consecutive(n_max);
                let mut dec = plain_dec(1, 32, 1, 32, MandTable::none());
                let mut full_labels = 0u64;
                for i in 0..800usize {
                    rep.eval();
                    let plen = i % 20;
                    let pdu = gen_pdu(&mut rng, plen, 0);
                    let mut buf = [0u8; 64];
                    let r = enc_guard(&mut enc, &pdu, 1, EncapMetadata::new(0x0800, label), &mut buf);
                    let nrep = match &r {
                        Ok(Ok(EncapStatus::CompletedPkt(k))) => *k as usize,
                        other => {
                            rep.violation("C01", format!("must-complete:long-run:{}", label_kind_name(&label)), || format!("packet {} of a run of complete packets with label {} and a maximum of {} consecutive re-uses: encap = {} although everything fits", i, label_str(&label), n_max, enc_res_str(other)), &replay);
                            return;
                        }
                    };
                    if wire::lt_of_word(u16::from_be_bytes([buf[0], buf[1]])) != 3 {
                        full_labels += 1;
                    }
                    let d = dec_guard(&mut dec, &buf[..nrep]);
                    match d {
                        Ok(Ok((DecapStatus::CompletedPkt(b, m), c))) if c == nrep && m.pdu_len() == plen && b[..plen] == pdu[..] && m.label() == label => {
                            give_back(&mut dec, b);
                        }
                        other => {
                            rep.violation("C01", format!("fidelity:long-run:{}", label_kind_name(&label)), || format!("packet {} of a run with label {} (max {} consecutive re-uses) not delivered intact: {}", i, label_str(&label), n_max, dec_res_str(&other)), &replay);
                            return;
                        }
                    }
                }
                rep.count_n("longrun.full-labels", full_labels);
                rep.nontrivial(mix(0x10A6, key));
                if key == 5 {
                    rep.sample(|| format!("longrun: 800 complete packets with label {}, max 255 consecutive re-uses -> all delivered, {} carried the full label", label_str(&label), full_labels));
                }
            }
            "traffic" => {
                // the round trip inside traffic: a seeded lock-step history (complete packets, fragment trains in
                // flight and completed later, re-use substitutions, resets) and then one complete packet
                use super::labelops::{random_op, Exec, Op, Outcome, LABELS};
                // one history in four: a receiver with one or two storage buffers whose application keeps every 1st / 2nd
                // delivered buffer (packets are then refused for lack of storage until the final provision)
                let scarce = rng.chance(1, 4);
                let mut ex = if scarce { Exec::with_buffers(true, 1 + rng.below(2)) } else { Exec::new(true) };
                if scarce {
                    ex.keep_every = 1 + rng.below(2) as u64;
                }
                let n = 2 + rng.below(10);
                let mut ops: Vec<Op> = Vec::new();
                let mut sink = Report::new();
                for _ in 0..n {
                    let op = match rng.below(7) {
                        0 => Op::Cont,
                        6 => Op::ContStale,
                        1 => Op::Enc { label: [0u8, 1, 2, 3][rng.below(4)], outcome: Outcome::Fragments, ext: false },
                        _ => random_op(&mut rng, true),
                    };
                    ops.push(op);
                    if !ex.step(&op, 0, &|| String::new(), &mut sink, &replay) {
                        rep.count("traffic.history-abandoned");
                        return;
                    }
                }
                // the receiver refused something for a legitimate reason (an unresolvable explicit re-use label, no
                // storage left): the two label memories may differ, so the final packet may be refused - but if it
                // is delivered, it is delivered with every field right
                let out_of_step = ex.rx_errors > 0;
                if out_of_step {
                    rep.count("traffic.receiver-refused-earlier");
                }
                // "a decapsulator whose storage can hold the PDU"
                let _ = ex.dec.as_mut().unwrap().provision_storage(vec![0u8; 64].into_boxed_slice());
                let li = [0usize, 1, 2, 3, 4][rng.below(5)];
                let label = LABELS[li];
                let plen = rng.below(21);
                let pdu = gen_pdu(&mut rng, plen, 0);
                let ptype = gen_user_ptype(&mut rng);
                let mut buf = vec![0u8; 64];
                rep.eval();
                let r = enc_guard(&mut ex.enc, &pdu, 200, EncapMetadata::new(ptype, label), &mut buf);
                let nrep = match r {
                    Ok(Ok(EncapStatus::CompletedPkt(k))) if (k as usize) <= buf.len() => k as usize,
                    _ => {
                        rep.count("traffic.final-not-completed");
                        return;
                    }
                };
                let lt = wire::lt_of_word(u16::from_be_bytes([buf[0], buf[1]]));
                let d = dec_guard(ex.dec.as_mut().unwrap(), &buf[..nrep]);
                let hist = || super::labelops::hist_str(&ops);
                match &d {
                    Ok(Ok((DecapStatus::CompletedPkt(b, m), c))) if *c == nrep && m.pdu_len() == plen && b[..plen] == pdu[..] && m.protocol_type() == ptype && m.label() == label => {
                        rep.count(if lt == 3 { "traffic.delivered-substituted" } else { "traffic.delivered" });
                        rep.nontrivial(mix(0x7AFF, mix(key, lt as u64)));
                        if key < 2 {
                            rep.sample(|| format!("traffic: after [{}] a complete packet with label {} (label type bits {}) is delivered with that label", hist(), label_str(&label), lt));
                        }
                    }
                    Ok(Err(_)) if out_of_step => rep.count("traffic.refused-after-losing-step"),
                    other => rep.violation("C01", format!("fidelity-in-traffic:{}{}{}", label_kind_name(&label), if lt == 3 { "+substituted" } else { "" }, if out_of_step { "+after-a-refused-packet" } else { "" }), || format!("after the history [{}] (every packet accepted by the receiver), encap(pdu {}B, label {}, type {:#06x}) = CompletedPkt({}) but decap returns {}", hist(), plen, label_str(&label), ptype, nrep, dec_res_str(other)), &replay),
                }
            }
            "ptypes" => {
                let ptype = (0x600 + key) as u16;
                for plen in [0usize, 26, 4087] {
                    let pdu = gen_pdu(&mut rng, plen, 0);
                    let label = gen_label(&mut rng, (key % 5) as usize);
                    let cell = Cell { pdu: &pdu, ptype, label, prime: false, reuse_on: true, buf_len: 4 + 6 + plen, storage: plen, mixed: false };
                    let out = run_cell(&cell, &mut big, rep, &replay);
                    rep.count(&format!("ptypes.{}", out));
                    if out == "delivered" {
                        rep.nontrivial(mix(0xABCD, (ptype as u64) << 16 | plen as u64));
                    }
                }
            }
            _ => {}
        }
    }
    fn floors(&self, _cx: &Cx, rep: &mut Report) {
        if rep.get("grid.delivered") < 100_000 {
            rep.floors_missing.push(format!("C01 floor: only {} grid cells delivered", rep.get("grid.delivered")));
        }
        if rep.get("grid.fragmented") == 0 {
            rep.floors_missing.push("C01 floor: no cell beyond the complete-packet limit observed".into());
        }
    }
}
