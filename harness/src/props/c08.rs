//! C08 — storage buffers are conserved: never leaked, never duplicated.
//! Buffer identity = unique length (every buffer the harness creates has a distinct length);
//! census of the bundled memory by clone-and-drain after every public call.

use crate::hostile::*;
use crate::mon::{census, guard, panic_class, Fault, MonMem, RecCrc, TableMgr};
use crate::refcrc::FastRef;
use crate::report::Report;
use crate::rng::{fnv, hex_short, mix, Rng};
use crate::util::*;
use crate::wire::{Mand, MandTable};
use crate::{Cx, Gen, Property};
use dvb_gse_rust::gse_decap::{DecapError, DecapMemoryError, DecapStatus, GseDecapMemory};

pub struct Prop;
pub static P: Prop = Prop;

const BASE: usize = 24; // configured PDU size; buffers are BASE + k bytes (k unique)

struct World {
    dec: MonDec,
    slots: usize,
    /// buffers owned by the caller
    pool: Vec<Box<[u8]>>,
    /// lengths of all buffers ever created
    universe: Vec<usize>,
    next_len: usize,
}

impl World {
    fn new(slots: usize, table: MandTable) -> Self {
        World { dec: mon_dec(slots, BASE, &[], table, RecCrc::off()), slots, pool: Vec::new(), universe: Vec::new(), next_len: BASE }
    }
    fn create(&mut self) -> Box<[u8]> {
        let l = self.next_len;
        self.next_len += 1;
        self.universe.push(l);
        vec![0u8; l].into_boxed_slice()
    }
    /// provision one buffer (from the pool, else a new one); buffers handed back in errors return to the pool
    fn provision(&mut self, fresh_ok: bool) -> &'static str {
        let b = match self.pool.pop() {
            Some(b) => b,
            None if fresh_ok && self.universe.len() < 12 => self.create(),
            None => return "nothing-to-provision",
        };
        match guard(|| self.dec.provision_storage(b)) {
            Ok(Ok(())) => "provisioned",
            Ok(Err(DecapMemoryError::StorageOverflow(b))) | Ok(Err(DecapMemoryError::BufferTooSmall(b))) => {
                self.pool.push(b);
                "provision-refused"
            }
            Ok(Err(_)) => "provision-error-without-buffer",
            Err(_) => "provision-panic",
        }
    }
    /// where is every buffer? Err(description) if conservation is broken
    fn audit(&self) -> Result<(usize, usize), String> {
        let hint: Vec<u8> = self.dec.memory.saved_ids.iter().rev().cloned().collect();
        let c = census(&self.dec.memory.inner, self.slots, BASE, &hint).map_err(|p| format!("census panicked: {}", p))?;
        let mut all: Vec<usize> = Vec::new();
        all.extend(self.pool.iter().map(|b| b.len()));
        all.extend(self.dec.memory.quarantine.iter().map(|b| b.len()));
        all.extend(c.free.iter());
        all.extend(c.attached.iter().map(|(_, l)| *l));
        all.sort_unstable();
        let mut u = self.universe.clone();
        u.sort_unstable();
        if all != u {
            let missing: Vec<usize> = u.iter().filter(|l| !all.contains(l)).cloned().collect();
            let mut dup: Vec<usize> = Vec::new();
            for w in all.windows(2) {
                if w[0] == w[1] {
                    dup.push(w[0]);
                }
            }
            let unknown: Vec<usize> = all.iter().filter(|l| !u.contains(l)).cloned().collect();
            return Err(format!("buffers created {:?}; caller holds {:?}, free {:?}, attached {:?}, quarantined {:?}; missing {:?} duplicated {:?} unknown {:?}", u, self.pool.iter().map(|b| b.len()).collect::<Vec<_>>(), c.free, c.attached, self.dec.memory.quarantine.iter().map(|b| b.len()).collect::<Vec<_>>(), missing, dup, unknown));
        }
        if !c.complete {
            return Err("after draining every buffer the census found, the memory is still not empty".into());
        }
        Ok((c.free.len(), c.attached.len()))
    }
    /// decap with buffer bookkeeping; returns (exit signature, result string)
    fn decap(&mut self, p: &[u8]) -> (String, String, bool) {
        let r = dec_guard(&mut self.dec, p);
        let s = dec_res_str(&r);
        let kind = if p.len() >= 2 { crate::wire::Kind::from_word(u16::from_be_bytes([p[0], p[1]])).name() } else { "short" };
        let (sig, panicked) = match r {
            Err(pm) => (format!("{}:panic:{}", kind, panic_class(&pm)), true),
            Ok(Ok((DecapStatus::CompletedPkt(b, _), _))) => {
                self.pool.push(b);
                (format!("{}:Completed", kind), false)
            }
            Ok(Ok((DecapStatus::FragmentedPkt(_), _))) => (format!("{}:Fragmented", kind), false),
            Ok(Ok((DecapStatus::Padding, _))) => ("padding".to_string(), false),
            Ok(Err((e, _))) => {
                let name = short_err(&e);
                let name = name.replace(|c: char| c.is_ascii_digit(), "");
                if let DecapError::ErrorMemory(DecapMemoryError::StorageOverflow(b)) | DecapError::ErrorMemory(DecapMemoryError::BufferTooSmall(b)) = e {
                    self.pool.push(b);
                }
                (format!("{}:{}", kind, name), false)
            }
        };
        (sig, s, panicked)
    }
}

/// targeted packets for every error exit (payloads sized for BASE-byte storage)
fn targeted(rng: &mut Rng, fr: &FastRef, slots: usize, open: &mut Vec<(u8, Vec<u8>, u16, u16, Vec<u8>)>) -> (Vec<u8>, &'static str) {
    // open: (frag id, payload so far, total_len, ptype, wire label)
    let small = |rng: &mut Rng, max: usize| -> Vec<u8> {
        let n = rng.below(max + 1);
        rng.bytes(n)
    };
    let big = |rng: &mut Rng, lo: usize, span: usize| -> Vec<u8> {
        let n = lo + rng.below(span);
        rng.bytes(n)
    };
    let lab6 = [0xAA, 1, 2, 3, 4, 5];
    let lab3 = [0xBB, 1, 2];
    let slots1 = std::cmp::max(slots, 1);
    // an id that shares the memory slot of `id` (255 slots: only 0 and 255 share one)
    let alias = |id: u8| -> u8 {
        if slots1 == 255 {
            match id {
                0 => 255,
                255 => 0,
                o => o,
            }
        } else {
            id.wrapping_add(slots1 as u8)
        }
    };
    let fresh_id = |rng: &mut Rng| -> u8 { if slots1 == 255 { [0u8, 255, 1, 254][rng.below(4)] } else { rng.below(8) as u8 } };
    match rng.below(25) {
        24 => {
            // a first fragment without payload whose total length is SMALLER than protocol type + label (accepted: the
            // mismatch only shows at the end fragment), registered as an open train so that its end fragment follows
            let id = fresh_id(rng);
            let lt = [0u8, 1][rng.below(2)];
            let wl: Vec<u8> = if lt == 0 { lab6.to_vec() } else { lab3.to_vec() };
            let total = 1 + rng.below(1 + wl.len()) as u16;
            open.retain(|o| (o.0 as usize) % slots1 != (id as usize) % slots1);
            open.push((id, vec![], total, 0x0800, wl.clone()));
            OPEN_PDU.with(|m| m.borrow_mut().insert(id, vec![]));
            (mk_first(lt, &wl, id, total, 0x0800, &[]), "first-total-below-type-and-label")
        }
        0 => (mk_complete(0, &lab6, 0x0800, &small(rng, BASE)), "complete-valid"),
        1 => (mk_complete(1, &lab3, 0x0800, &small(rng, BASE)), "complete-valid"),
        2 => (mk_complete(2, &[], 0x0800, &small(rng, BASE)), "complete-valid"),
        3 => (mk_complete(3, &[], 0x0800, &small(rng, BASE)), "complete-reuse"),
        4 => (mk_complete(2, &[], 0x0800, &big(rng, BASE + 20, 40)), "complete-oversize"),
        5 => (mk_complete(0, &[0; 6], 0x0800, &small(rng, 8)), "complete-zero-label"),
        6 => (mk_complete(2, &[], 0x0042, &small(rng, 8)), "complete-unknown-mandatory"),
        7 => (vec![0xC0, 0x03, 0x08, 0x00, 0x01], "complete-short-gse-length"),
        8 | 9 | 10 => {
            // new first fragment (new id, same id as an open one, or aliasing one)
            let id = match rng.below(3) {
                0 if !open.is_empty() => open[rng.below(open.len())].0,
                1 if !open.is_empty() => alias(open[rng.below(open.len())].0),
                _ => fresh_id(rng),
            };
            let lt = rng.below(4) as u8;
            let wl: Vec<u8> = match lt {
                0 => lab6.to_vec(),
                1 => lab3.to_vec(),
                _ => vec![],
            };
            let plen = 2 + rng.below(BASE - 1);
            let pdu = rng.bytes(plen);
            let cut = rng.below(plen);
            let total = (2 + wl.len() + plen) as u16;
            let p = mk_first(lt, &wl, id, total, 0x0800, &pdu[..cut]);
            open.retain(|o| (o.0 as usize) % slots1 != (id as usize) % slots1);
            open.push((id, pdu[..cut].to_vec(), total, 0x0800, wl));
            // remember the whole PDU in the payload field's tail for later valid continuation
            open.last_mut().unwrap().1 = pdu[..cut].to_vec();
            OPEN_PDU.with(|m| m.borrow_mut().insert(id, pdu));
            (p, "first")
        }
        11 => {
            let id = rng.below(8) as u8;
            (mk_first(2, &[], id, 300, 0x0800, &big(rng, BASE + 10, 30)), "first-oversize")
        }
        12 => (mk_first(0, &[0; 6], rng.below(8) as u8, 30, 0x0800, &small(rng, 8)), "first-zero-label"),
        13 => (mk_first(2, &[], rng.below(8) as u8, 30, 0x0033, &small(rng, 8)), "first-unknown-mandatory"),
        14 => (mk_first(2, &[], rng.below(8) as u8, 2, 0x0800, &small(rng, 8)), "first-bad-total-length"),
        15 | 16 => {
            // valid continuation of an open train
            if open.is_empty() {
                return (mk_inter(rng.below(8) as u8, &small(rng, 8)), "inter-unknown-id");
            }
            let i = rng.below(open.len());
            let id = open[i].0;
            let pdu = OPEN_PDU.with(|m| m.borrow().get(&id).cloned()).unwrap_or_default();
            let have = open[i].1.len();
            if have >= pdu.len() || rng.chance(1, 2) {
                // end fragment (valid, bad crc, or bad length)
                let (id, _, total, pt, wl) = open.remove(i);
                let crc = fr.gse(total, pt, &wl, &pdu);
                match rng.below(4) {
                    0 => (mk_end(id, &pdu[have.min(pdu.len())..], crc ^ 0x10), "end-bad-crc"),
                    1 => {
                        let mut rest = pdu[have.min(pdu.len())..].to_vec();
                        rest.push(0x99);
                        (mk_end(id, &rest, crc), "end-bad-length")
                    }
                    _ => (mk_end(id, &pdu[have.min(pdu.len())..], crc), "end-valid"),
                }
            } else {
                let n = 1 + rng.below(pdu.len() - have);
                let p = mk_inter(id, &pdu[have..have + n]);
                open[i].1.extend_from_slice(&pdu[have..have + n]);
                (p, "inter-valid")
            }
        }
        17 => {
            let id = if !open.is_empty() && rng.chance(1, 2) { alias(open[0].0) } else { 200 + rng.below(8) as u8 };
            (mk_inter(id, &small(rng, 8).iter().chain([1u8].iter()).cloned().collect::<Vec<_>>()), "inter-unknown-or-aliasing-id")
        }
        18 => {
            let id = if !open.is_empty() { open.remove(0).0 } else { 3 };
            (mk_inter(id, &big(rng, BASE + 10, 30)), "inter-oversize")
        }
        19 => {
            let id = if !open.is_empty() { open.remove(0).0 } else { 3 };
            (mk_end(id, &big(rng, BASE + 10, 30), 0x1234), "end-oversize")
        }
        20 => {
            let id = if !open.is_empty() && rng.chance(1, 2) { alias(open[0].0) } else { 200 + rng.below(8) as u8 };
            (mk_end(id, &small(rng, 8), 0xDEAD_BEEF), "end-unknown-or-aliasing-id")
        }
        21 => (vec![0x30, 0x01, rng.below(8) as u8], "inter-empty"),
        22 => (vec![0x70, 0x03, rng.below(8) as u8, 1, 2], "end-short"),
        _ => (mk_first(3, &[], rng.below(8) as u8, 20, 0x0800, &small(rng, 8)), "first-reuse"),
    }
}

thread_local! {
    static OPEN_PDU: std::cell::RefCell<std::collections::HashMap<u8, Vec<u8>>> = std::cell::RefCell::new(std::collections::HashMap::new());
}

fn some_table() -> MandTable {
    let mut t = MandTable::signalisation();
    t.t[0x10] = Mand::NonFinal(2);
    t
}

impl Property for Prop {
    fn id(&self) -> &'static str {
        "C08"
    }
    fn rule(&self) -> &'static str {
        "histories: seeded sequences of 200..3000 calls of provision (from the caller's pool or a fresh buffer, also when the free list is full), decap of packets targeted at each exit (valid complete / first / intermediate / end; re-use without remembered label in complete and first packets; CRC and length mismatch; oversize complete / first / intermediate / end; unknown and aliasing fragment ids; unknown mandatory extension; zero label; no storage; short GSE length per kind) mixed with hostile packets, reset (single, or 300..1400 frame boundaries in a row); memories of 0,1,2,3,4 and 255 slots (there with the fragment ids 0 / 255, which share a slot, and 1 / 254); after EVERY call a clone-and-drain census of the bundled memory is compared with the set of buffers ever created (identity = unique length): every buffer in exactly one of caller / free / attached / quarantine. faults: for each scenario (receiver state x packet) the memory operations behind the GseDecapMemory trait are counted, then the scenario is re-run failing operation i for every i with every error the trait documents for that operation (StorageUnderflow, StorageOverflow(buf), BufferTooSmall(buf), UndefinedId, MemoryCorrupted). big: buffers of 70000+ bytes with trains that reach and exceed 65535 received bytes, audited after every call. An evaluation = one audited call; non-trivial = an audited decap call that ended in an error or moved a buffer; fingerprint = (exit signature, free count, attached count, injected fault)."
    }
    fn gens(&self, cx: &Cx) -> Vec<Gen> {
        vec![Gen { name: "histories", count: cx.n(1_500, 60_000), exhaustive: false }, Gen { name: "faults", count: cx.n(6_000, 300_000), exhaustive: false }, Gen { name: "big", count: cx.n(24, 600), exhaustive: false }]
    }
    fn run_key(&self, cx: &Cx, gen: &str, key: u64, rep: &mut Report) {
        let replay_s = format!("gen={} key={} seed={} profile={}", gen, key, cx.seed, cx.profile);
        let mut rng = Rng::derive(cx.seed, fnv(gen.as_bytes()), key);
        let fr = FastRef::new();
        let slots = [0usize, 1, 1, 2, 2, 4, 3, 255][rng.below(8)];
        match gen {
            "histories" => {
                let mut w = World::new(slots, some_table());
                let pool = Pool::new(&mut rng);
                let st_hint = RxState { name: "c08", slots, pdu_size: BASE, mem: dvb_gse_rust::gse_decap::SimpleGseMemory::new(slots, BASE, 0, 0), prime: None, table: some_table(), open_ids: vec![], rebuild: None };
                let mut open: Vec<(u8, Vec<u8>, u16, u16, Vec<u8>)> = Vec::new();
                let n = 200 + rng.below(if cx.quick() { 800 } else { 2800 });
                let mut recent: Vec<String> = Vec::new();
                for step in 0..n {
                    if step % 16 == 0 && crate::expired() {
                        return;
                    }
                    rep.eval();
                    let (what, sig, moved) = match rng.below(10) {
                        0 | 1 | 2 => {
                            let r = w.provision(true);
                            (format!("provision -> {}", r), format!("provision:{}", r), r != "nothing-to-provision")
                        }
                        3 => {
                            // a frame boundary; now and then hundreds of them in a row (a reassembly that waits for a long
                            // time still owns its buffer)
                            let k = if rng.chance(1, 12) { 300 + rng.below(70000 / 64) } else { 1 };
                            for _ in 0..k {
                                w.dec.reset_last_label();
                            }
                            (format!("reset x{}", k), "reset".to_string(), false)
                        }
                        4 => {
                            let p = hostile_packet(&mut rng, &pool, &st_hint);
                            let (sig, s, _) = w.decap(&p);
                            (format!("decap(hostile {}) -> {}", hex_short(&p, 24), s), sig, true)
                        }
                        _ => {
                            let (p, name) = targeted(&mut rng, &fr, slots, &mut open);
                            let (sig, s, _) = w.decap(&p);
                            rep.count(&format!("exit.{}", sig));
                            rep.count(&format!("target.{}", name));
                            (format!("decap({} {}) -> {}", name, hex_short(&p, 24), s), sig, true)
                        }
                    };
                    recent.push(what);
                    if recent.len() > 6 {
                        recent.remove(0);
                    }
                    match w.audit() {
                        Ok((f, a)) => {
                            if a > 0 {
                                rep.count("census.with-attached");
                            }
                            if moved {
                                rep.nontrivial(mix(fnv(sig.as_bytes()), (f * 16 + a) as u64));
                            }
                        }
                        Err(d) => {
                            let class = sig.replace(|c: char| c.is_ascii_digit(), "");
                            rep.violation("C08", format!("conservation:{}", class), || format!("slots {}: after [{}]: {}", slots, recent.join(" ; "), d), &|| format!("{} step={}", replay_s, step));
                            break;
                        }
                    }
                    if sig.contains(":panic:") {
                        break;
                    }
                }
                rep.count("c08.histories");
                if key == 0 {
                    rep.sample(|| format!("history: slots {}, {} audited calls, last [{}], {} buffers created, conservation held at every step", slots, n, recent.join(" ; "), w.universe.len()));
                }
            }
            "big" => {
                // storage buffers above 64 KiB: trains that reach / exceed 65535 received bytes, oversize
                // fragments, bad trailers; audit after every call (identity = unique length 70000 + k)
                let slots = 1 + rng.below(2);
                let mut dec = mon_dec(slots, 70000, &[], MandTable::none(), RecCrc::off());
                let mut pool: Vec<Box<[u8]>> = Vec::new();
                let universe: Vec<usize> = (0..3).map(|k| 70000 + k).collect();
                for l in &universe {
                    pool.push(vec![0u8; *l].into_boxed_slice());
                }
                let audit = |dec: &MonDec, pool: &Vec<Box<[u8]>>| -> Result<(), String> {
                    let hint: Vec<u8> = dec.memory.saved_ids.iter().rev().cloned().collect();
                    let c = census(&dec.memory.inner, slots, 70000, &hint).map_err(|p| format!("census panicked: {}", p))?;
                    let mut all: Vec<usize> = pool.iter().map(|b| b.len()).collect();
                    all.extend(c.free.iter());
                    all.extend(c.attached.iter().map(|(_, l)| *l));
                    all.extend(dec.memory.quarantine.iter().map(|b| b.len()));
                    all.sort_unstable();
                    if all != universe {
                        return Err(format!("buffers created {:?}; caller holds {:?}, free {:?}, attached {:?}", universe, pool.iter().map(|b| b.len()).collect::<Vec<_>>(), c.free, c.attached));
                    }
                    Ok(())
                };
                let id = rng.byte();
                let total_announced: u16 = [65535u16, 65000, 3000][rng.below(3)];
                let mut recent: Vec<String> = Vec::new();
                let steps = 24 + rng.below(12);
                let mut started = false;
                for step in 0..steps {
                    rep.eval();
                    let what: String;
                    // even keys: a scripted run straight to the 16-bit limit (first fragment, then 4000-byte
                    // intermediates until the received length would exceed 65535), then random traffic
                    let scripted = key % 2 == 0 && step < 22;
                    if (scripted && step == 0 && !pool.is_empty()) || (!scripted && rng.chance(1, 4) && !pool.is_empty()) {
                        let b = pool.pop().unwrap();
                        match crate::mon::guard(|| dec.provision_storage(b)) {
                            Ok(Ok(())) => what = "provision -> ok".into(),
                            Ok(Err(DecapMemoryError::StorageOverflow(b))) | Ok(Err(DecapMemoryError::BufferTooSmall(b))) => {
                                pool.push(b);
                                what = "provision -> refused".into();
                            }
                            _ => what = "provision -> lost".into(),
                        }
                    } else {
                        let p = if scripted {
                            if !started {
                                started = true;
                                mk_first(2, &[], id, 65535, 0x0800, &vec![0x11u8; 100])
                            } else {
                                mk_inter(id, &vec![0x33u8; 4000])
                            }
                        } else if !started || rng.chance(1, 12) {
                            started = true;
                            mk_first(2, &[], id, total_announced, 0x0800, &vec![0x11u8; rng.below(200)])
                        } else if rng.chance(1, 10) {
                            mk_end(id, &vec![0x22u8; rng.below(4000)], rng.next() as u32)
                        } else {
                            mk_inter(id, &vec![0x33u8; [4000usize, 4094, 1000, 535, 1][rng.below(5)]])
                        };
                        let r = dec_guard(&mut dec, &p);
                        what = format!("decap({} {}B) -> {}", crate::wire::Kind::from_word(u16::from_be_bytes([p[0], p[1]])).name(), p.len(), dec_res_str(&r));
                        match r {
                            Err(_) => {
                                rep.count("big.panic");
                            }
                            Ok(Ok((DecapStatus::CompletedPkt(b, _), _))) => pool.push(b),
                            Ok(Err((DecapError::ErrorMemory(DecapMemoryError::StorageOverflow(b)), _))) | Ok(Err((DecapError::ErrorMemory(DecapMemoryError::BufferTooSmall(b)), _))) => pool.push(b),
                            Ok(Err((e, _))) => rep.count(&format!("big.exit.{}", short_err(&e).replace(|c: char| c.is_ascii_digit(), ""))),
                            _ => {}
                        }
                    }
                    recent.push(what);
                    if recent.len() > 5 {
                        recent.remove(0);
                    }
                    if let Err(d) = audit(&dec, &pool) {
                        rep.violation("C08", "conservation:storage-above-64KiB".into(), || format!("slots {}, buffers of 70000+ bytes: after [{}]: {}", slots, recent.join(" ; "), d), &|| format!("{} step={}", replay_s, step));
                        return;
                    }
                    rep.nontrivial(mix(mix(0xB16, key), step as u64));
                }
                rep.count("big.histories");
            }
            "faults" => {
                // scenario = short seeded set-up history + one packet; then fail each memory operation in turn
                let setup_len = rng.below(12);
                let seed_state = rng.next();
                let build = |rep: &mut Report| -> (World, Vec<(u8, Vec<u8>, u16, u16, Vec<u8>)>, Rng) {
                    let mut r = Rng::new(seed_state);
                    let mut w = World::new(slots, some_table());
                    let mut open = Vec::new();
                    let np = r.below(5);
                    for _ in 0..np {
                        w.provision(true);
                    }
                    for _ in 0..setup_len {
                        if r.chance(1, 4) {
                            w.provision(true);
                        } else {
                            let (p, _) = targeted(&mut r, &fr, slots, &mut open);
                            let _ = w.decap(&p);
                        }
                    }
                    let _ = rep;
                    (w, open, r)
                };
                // dry run: count the memory operations of the probe packet
                let (mut w, mut open, mut r) = build(rep);
                if w.audit().is_err() {
                    rep.count("faults.setup-already-broken");
                    return;
                }
                let (p, name) = targeted(&mut r, &fr, slots, &mut open);
                w.dec.memory.arm(None);
                let (sig0, _, panicked) = w.decap(&p);
                let m = w.dec.memory.ops;
                rep.count_n("faults.memory-ops", m as u64);
                if panicked {
                    rep.count("faults.dry-run-panic");
                    return;
                }
                for i in 0..m {
                    if crate::expired() {
                        return;
                    }
                    for f in [Fault::Underflow, Fault::Overflow, Fault::TooSmall, Fault::UndefinedId, Fault::Corrupted] {
                        let (mut w, mut open, mut r) = build(rep);
                        let (p2, _) = targeted(&mut r, &fr, slots, &mut open);
                        debug_assert_eq!(p, p2);
                        w.dec.memory.arm(Some((i, f.clone())));
                        let (sig, s, _) = w.decap(&p2);
                        if !w.dec.memory.fired {
                            continue;
                        }
                        rep.eval();
                        rep.count(&format!("faults.injected.{:?}", f));
                        match w.audit() {
                            Ok((fc, ac)) => rep.nontrivial(mix(mix(fnv(sig.as_bytes()), (fc * 16 + ac) as u64), mix(i as u64, fnv(format!("{:?}", f).as_bytes())))),
                            Err(d) => {
                                let class = sig.replace(|c: char| c.is_ascii_digit(), "");
                                rep.violation("C08", format!("conservation-under-fault:{:?}:{}", f, class), || format!("slots {}: scenario '{}' ({}; without fault: {}), memory operation {} of {} failing with {:?}: decap -> {}; {}", slots, name, hex_short(&p2, 32), sig0, i, m, f, s, d), &|| replay_s.clone());
                            }
                        }
                    }
                }
                rep.count("faults.scenarios");
                if key == 3 {
                    rep.sample(|| format!("faults: scenario '{}' after a {}-call set-up on {} slots: {} memory operations, each failed in turn with every documented error -> conservation held", name, setup_len, slots, m));
                }
            }
            _ => {}
        }
    }
    fn floors(&self, _cx: &Cx, rep: &mut Report) {
        for k in ["census.with-attached", "faults.injected.Underflow", "faults.injected.Overflow", "faults.injected.UndefinedId", "faults.injected.Corrupted", "target.end-bad-crc", "target.end-valid", "target.inter-oversize", "target.complete-reuse", "target.first-unknown-mandatory", "big.histories", "big.exit.ErrorTotalLength"] {
            if rep.get(k) == 0 {
                rep.floors_missing.push(format!("C08 floor: counter {} is 0", k));
            }
        }
    }
}
