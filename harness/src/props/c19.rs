//! C19 — see frames.rs (shared frame traffic workload and oracles).
use super::frames;
use crate::report::Report;
use crate::{Cx, Gen, Property};

pub struct Prop;
pub static P: Prop = Prop;

impl Property for Prop {
    fn id(&self) -> &'static str {
        "C19"
    }
    fn rule(&self) -> &'static str {
        frames::RULE
    }
    fn gens(&self, cx: &Cx) -> Vec<Gen> {
        frames::gens(cx)
    }
    fn run_key(&self, cx: &Cx, gen: &str, key: u64, rep: &mut Report) {
        frames::run_key(cx, frames::M_C19, gen, key, rep)
    }
    fn floors(&self, _cx: &Cx, rep: &mut Report) {
        for k in "peek.fragid-ok,peek.reuse-ok,peek.label-ok-vs-decap".split(',') {
            if rep.get(k) == 0 {
                rep.floors_missing.push(format!("C19 floor: counter {} is 0", k));
            }
        }
    }
}
