//! C20 — the packet structs in `utils` serialise and parse consistently with the codec,
//! the encapsulator and the decapsulator.

use crate::mon::guard;
use crate::refcrc::FastRef;
use crate::report::Report;
use crate::rng::{fnv, hex_short, mix, Rng};
use crate::util::*;
use crate::wire::{self, Fields, Kind, MandTable};
use crate::{Cx, Gen, Property};
use dvb_gse_rust::crc::DefaultCrc;
use dvb_gse_rust::gse_decap::DecapStatus;
use dvb_gse_rust::gse_encap::{ContextFrag, EncapMetadata, EncapStatus, Encapsulator};
use dvb_gse_rust::label::Label;
use dvb_gse_rust::utils::{GseCompletePacket, GseEndFragPacket, GseFirstFragPacket, GseIntermediatePacket, Serialisable};

pub struct Prop;
pub static P: Prop = Prop;

impl Property for Prop {
    fn id(&self) -> &'static str {
        "C20"
    }
    fn rule(&self) -> &'static str {
        "lengths: key = payload length 0..=4000; for each: the four packet kinds x label kinds (6-byte, 3-byte, broadcast, re-use for start/complete) x seeded fragment id, protocol type >= 0x0600, total length, CRC; each well-formed description (GSE length consistent with its fields; intermediate payload >= 1 byte) is generated, compared byte for byte with the independent serialiser, parsed back (must equal the description), compared with what the encapsulator emits when driven to the same fields (complete packet; first fragment with the same split; intermediate / end from a context at the same position) and fed to the decapsulator (accepted with the same field values; first fragments are completed by a utils-generated end fragment on memories of 1, 3, 5 and 6 slots; one first fragment in eight carries the whole PDU so that the end fragment carries only the CRC; payloads of 0..=8 bytes also with 0, 1, 2, 3 and 6 further PDU bytes, i.e. fragmented PDUs shorter than a label, after a 3-byte or a 6-byte label was remembered; every other train has the receiver's label memory emptied between its fragments; every first-fragment description is also generated and parsed back with total lengths 4095, 4096, 4097, 0x1FFF, 0x8000, 0xFFFF and a random one). maxtotal: descriptions with total length 65530..=65535 for every label kind (18 packets each). the end-fragment comparison with the encapsulator is repeated with output buffers of 4097..131072 bytes; ids: after the first of the two trains is delivered, a generated complete packet with a re-use label must be attributed to the label of the last start packet; for EVERY fragment id X, two utils-generated trains in flight at once on X and a partner id (255 - X, X + 1, X + 128) on memories of 256, 255, 3 and 7 slots; one train's intermediate fragment carries all remaining bytes so that its end fragment carries only the CRC; both must be accepted and delivered with the same field values. Each of these comparisons is an evaluation; fingerprint = (kind, label kind, payload length)."
    }
    fn gens(&self, _cx: &Cx) -> Vec<Gen> {
        vec![Gen { name: "lengths", count: 4001, exhaustive: true }, Gen { name: "maxtotal", count: 24, exhaustive: true }, Gen { name: "ids", count: 256, exhaustive: true }]
    }
    fn run_key(&self, cx: &Cx, gen: &str, key: u64, rep: &mut Report) {
        let replay_s = format!("gen={} key={} seed={} profile={}", gen, key, cx.seed, cx.profile);
        let replay = || replay_s.clone();
        let mut rng = Rng::derive(cx.seed, fnv(gen.as_bytes()), key);
        let fr = FastRef::new();
        if gen == "ids" {
            // "for all fragment ids": two utils-generated trains in flight at the same time, on fragment id X = key and
            // on a partner id (255 - X, X + 1, X + 128), on memories with one slot per id (256), one less (255) and
            // few (3, 7) slots when the two ids do not share a slot.  Train 1: first | intermediate carrying ALL
            // remaining bytes | end carrying only the CRC; train 2: first | intermediate | end with payload.
            let x = key as u8;
            for partner in [255 - x, x.wrapping_add(1), x.wrapping_add(128)] {
                if partner == x {
                    continue;
                }
                for slots in [256usize, 255, 3, 7] {
                    if x as usize % slots == partner as usize % slots {
                        continue;
                    }
                    let labels = [gen_label(&mut rng, 0), gen_label(&mut rng, 2)];
                    let mut trains: Vec<(Vec<Vec<u8>>, Vec<u8>, u16, Label)> = Vec::new();
                    for (ti, id) in [x, partner].iter().enumerate() {
                        let plen = 6 + rng.below(40);
                        let pdu = rng.bytes(plen);
                        let label = labels[ti];
                        let lb = label_bytes(&label);
                        let ptype = gen_user_ptype(&mut rng);
                        let total = (2 + lb.len() + plen) as u16;
                        let a = 1 + rng.below(plen - 3);
                        let b = if ti == 0 { plen } else { a + 1 + rng.below(plen - a - 1) };
                        let crc = fr.gse(total, ptype, &lb, &pdu);
                        let f = GseFirstFragPacket::new((3 + 2 + lb.len() + a) as u16, *id, total, ptype, label, &pdu[..a]);
                        let i = GseIntermediatePacket::new((1 + b - a) as u16, *id, &pdu[a..b]);
                        let e = GseEndFragPacket::new((1 + plen - b + 4) as u16, *id, &pdu[b..], crc);
                        let mut fb = vec![0u8; 2 + 3 + 2 + lb.len() + a];
                        let mut ib = vec![0u8; 2 + 1 + b - a];
                        let mut eb = vec![0u8; 2 + 1 + plen - b + 4];
                        rep.eval();
                        if guard(|| { f.generate(&mut fb); i.generate(&mut ib); e.generate(&mut eb); }).is_err() {
                            rep.violation("C20", "generate:ids".into(), || format!("generate panicked for frag id {}", id), &replay);
                            return;
                        }
                        trains.push((vec![fb, ib, eb], pdu, ptype, label));
                    }
                    let mut dec = plain_dec(slots, 64, 3, 64, MandTable::none());
                    // interleaved: F1 F2 I1 I2 E1 E2
                    for step in 0..3 {
                        for ti in 0..2 {
                            let (pk, pdu, ptype, label) = &trains[ti];
                            rep.eval();
                            let d = dec_guard(&mut dec, &pk[step]);
                            let ok = match &d {
                                Ok(Ok((DecapStatus::FragmentedPkt(m), c))) if step < 2 => *c == pk[step].len() && m.protocol_type() == *ptype && m.label() == *label,
                                Ok(Ok((DecapStatus::CompletedPkt(b, m), c))) if step == 2 => *c == pk[step].len() && m.pdu_len() == pdu.len() && b[..pdu.len()] == pdu[..] && m.protocol_type() == *ptype && m.label() == *label,
                                _ => false,
                            };
                            if !ok {
                                let id = if ti == 0 { x } else { partner };
                                rep.violation("C20", format!("decap-differs:two-ids-in-flight:{}:{}", ["first", "intermediate", "end"][step], if ti == 0 { "end-carries-only-crc" } else { "plain" }), || format!("{}-slot memory, fragment ids {} and {} in flight: decap(generate({} of id {})) = {}", slots, x, partner, ["first", "intermediate", "end"][step], id, dec_res_str(&d)), &replay);
                                return;
                            }
                            if let Ok(Ok((DecapStatus::CompletedPkt(b, _), _))) = d {
                                let _ = dec.provision_storage(b);
                            }
                            if step == 2 && ti == 0 {
                                // train 0 (label A) has just been delivered; the last start packet seen carried train 1's
                                // label B: a utils-generated complete packet with a re-use label belongs to B
                                let cp = GseCompletePacket::new(2 + 4, 0x0800, Label::ReUse, b"pdu!");
                                let mut cb = vec![0u8; 2 + 2 + 4];
                                let _ = guard(|| cp.generate(&mut cb));
                                rep.eval();
                                let dr = dec_guard(&mut dec, &cb);
                                match &dr {
                                    Ok(Ok((DecapStatus::CompletedPkt(_, m), _))) if m.label() == trains[1].3 => {}
                                    other => {
                                        rep.violation("C20", "decap-differs:re-use-complete-after-delivery".into(), || format!("{}-slot memory, ids {} (label {}) and {} (label {}): after the first train was delivered, a generated complete packet with a re-use label -> {} (the preceding start packet carried {})", slots, x, label_str(&trains[0].3), partner, label_str(&trains[1].3), dec_res_str(other), label_str(&trains[1].3)), &replay);
                                        return;
                                    }
                                }
                                if let Ok(Ok((DecapStatus::CompletedPkt(b, _), _))) = dr {
                                    let _ = dec.provision_storage(b);
                                }
                            }
                        }
                    }
                    rep.count("c20.ids");
                    rep.nontrivial(mix(5, mix(key, mix(partner as u64, slots as u64))));
                }
            }
            return;
        }
        if gen == "maxtotal" {
            // descriptions whose total length is at the top of the 16-bit range (65530..=65535): a first fragment
            // (label written in full / broadcast / re-use), sixteen intermediate fragments and an end fragment, all
            // generated by utils, must be accepted; and the encapsulator driven to the same fields (re-use by
            // automatic substitution) must emit the same first fragment
            let total: usize = 65530 + (key as usize % 6);
            let lk = (key as usize / 6) % 4; // 0 six-byte, 1 three-byte, 2 broadcast, 3 re-use (after a six-byte label)
            let full_label = match lk {
                0 | 3 => gen_label(&mut rng, 0),
                1 => gen_label(&mut rng, 2),
                _ => Label::Broadcast,
            };
            let label = if lk == 3 { Label::ReUse } else { full_label };
            let lb = label_bytes(&label);
            let plen = total - 2 - lb.len();
            let pdu = gen_pdu(&mut rng, plen, 0);
            let ptype = gen_user_ptype(&mut rng);
            let frag_id = rng.byte();
            let first_n = 100usize;
            let gl = (3 + 2 + lb.len() + first_n) as u16;
            let f = GseFirstFragPacket::new(gl, frag_id, total as u16, ptype, label, &pdu[..first_n]);
            let mut fbuf = vec![0u8; gl as usize + 2];
            rep.eval();
            if guard(|| f.generate(&mut fbuf)).is_err() {
                rep.violation("C20", "generate:first:maxtotal".into(), || "generate panicked".into(), &replay);
                return;
            }
            let mut dec = plain_dec(2, 70000, 2, 70000, MandTable::none());
            let mut enc = Encapsulator::new(DefaultCrc {});
            if lk == 3 {
                // the label the re-use refers to: sent (and received) just before
                let mut pb = vec![0u8; 32];
                match guard(|| enc.encap(b"", 0, EncapMetadata::new(0x0800, full_label), &mut pb)) {
                    Ok(Ok(EncapStatus::CompletedPkt(k))) => {
                        if let Ok(Ok((DecapStatus::CompletedPkt(b, _), _))) = dec_guard(&mut dec, &pb[..k as usize]) {
                            let _ = dec.provision_storage(b);
                        }
                    }
                    _ => return,
                }
            }
            // encapsulator: same fields (for re-use: the full label is passed and substituted automatically)
            let mut eb = vec![0u8; gl as usize + 2];
            rep.eval();
            match guard(|| enc.encap(&pdu, frag_id, EncapMetadata::new(ptype, full_label), &mut eb)) {
                Ok(Ok(EncapStatus::FragmentedPkt(m, _))) if m as usize == eb.len() && eb == fbuf => {}
                o => rep.violation("C20", format!("encap-differs:first:maxtotal:{}", crate::sender::label_kind(&label)), || format!("total length {}: encap(pdu {}B, label {}) = {:?}; utils describes the first fragment {}", total, plen, label_str(&full_label), o.map(|x| format!("{:?}", x)), hex_short(&fbuf, 24)), &replay),
            }
            // receiver: first, intermediates of 4000 bytes, end
            let crc = fr.gse(total as u16, ptype, &lb, &pdu);
            let mut pkts = vec![fbuf];
            let mut off = first_n;
            while plen - off > 4000 {
                let i = GseIntermediatePacket::new(4001, frag_id, &pdu[off..off + 4000]);
                let mut b = vec![0u8; 4003];
                let _ = guard(|| i.generate(&mut b));
                pkts.push(b);
                off += 4000;
            }
            // one more intermediate fragment so that the received length comes within 3 bytes of the PDU length
            // before the end fragment
            if plen - off > 3 {
                let k = plen - off - 3;
                let i = GseIntermediatePacket::new((1 + k) as u16, frag_id, &pdu[off..off + k]);
                let mut b = vec![0u8; 3 + k];
                let _ = guard(|| i.generate(&mut b));
                pkts.push(b);
                off += k;
            }
            let e = GseEndFragPacket::new((1 + plen - off + 4) as u16, frag_id, &pdu[off..], crc);
            let mut b = vec![0u8; 2 + 1 + plen - off + 4];
            let _ = guard(|| e.generate(&mut b));
            pkts.push(b);
            let np = pkts.len();
            let want_label = full_label;
            for (i, p) in pkts.iter().enumerate() {
                rep.eval();
                let r = dec_guard(&mut dec, p);
                let ok = if i + 1 < np {
                    matches!(&r, Ok(Ok((DecapStatus::FragmentedPkt(m), c))) if *c == p.len() && m.label() == want_label && m.protocol_type() == ptype)
                } else {
                    matches!(&r, Ok(Ok((DecapStatus::CompletedPkt(b, m), c))) if *c == p.len() && m.pdu_len() == plen && b[..plen] == pdu[..] && m.label() == want_label && m.protocol_type() == ptype)
                };
                if !ok {
                    rep.violation("C20", format!("decap-differs:maxtotal:{}", crate::sender::label_kind(&label)), || format!("total length {} (pdu {}B, label {}): packet {}/{} generated by utils -> {}", total, plen, label_str(&label), i + 1, np, dec_res_str(&r)), &replay);
                    return;
                }
            }
            rep.count("c20.maxtotal");
            rep.nontrivial(mix(5, key));
            return;
        }
        let n = key as usize;
        let payload = gen_pdu(&mut rng, n, (key % 5) as usize);
        let labels = [gen_label(&mut rng, 0), gen_label(&mut rng, 2), Label::Broadcast, Label::ReUse, gen_label(&mut rng, 3)];
        for label in labels {
            let lb = label_bytes(&label);
            let lt = lt_of_label(&label);
            let ptype = gen_user_ptype(&mut rng);
            let frag_id = rng.byte();
            let lk = crate::sender::label_kind(&label);
            // ------------------------------------------------ complete
            if 2 + lb.len() + n <= 4095 {
                let gl = (2 + lb.len() + n) as u16;
                let p = GseCompletePacket::new(gl, ptype, label, &payload);
                let mut buf = vec![0u8; gl as usize + 2];
                rep.eval();
                let r = guard(|| p.generate(&mut buf));
                let want = wire::serialise(&Fields { kind: Kind::Complete, lt, frag_id: 0, total_len: 0, ptype, label: &lb, exts: &[], final_ext: false, payload: &payload, crc: 0 });
                if r.is_err() || buf != want {
                    rep.violation("C20", format!("generate:complete:{}", lk), || format!("GseCompletePacket(gse_len {}, type {:#06x}, label {}, payload {}B).generate = {} ({:?}), TS 102 606 serialisation {}", gl, ptype, label_str(&label), n, hex_short(&buf, 40), r.err(), hex_short(&want, 40)), &replay);
                } else {
                    match guard(|| GseCompletePacket::parse(&buf).map(|q| q == p)) {
                        Ok(Ok(true)) => {}
                        o => rep.violation("C20", format!("parse:complete:{}", lk), || format!("parse(generate(complete packet, payload {}B, label {})) != original: {:?}", n, label_str(&label), o), &replay),
                    }
                    // encapsulator emits the same bytes (explicit re-use is passed through as is)
                    let mut enc = Encapsulator::new(DefaultCrc {});
                    let mut eb = vec![0u8; gl as usize + 2];
                    match guard(|| enc.encap(&payload, frag_id, EncapMetadata::new(ptype, label), &mut eb)) {
                        Ok(Ok(EncapStatus::CompletedPkt(m))) if m as usize == eb.len() && eb == buf => {}
                        o => rep.violation("C20", format!("encap-differs:complete:{}", lk), || format!("encap(payload {}B, label {}, exact buffer) = {:?} bytes {}, utils generate {}", n, label_str(&label), o.map(|x| format!("{:?}", x)), hex_short(&eb, 40), hex_short(&buf, 40)), &replay),
                    }
                    // decapsulator accepts with the same fields (re-use needs a remembered label: primed)
                    let mut dec = plain_dec(1, n, 1, n, MandTable::none());
                    let prime_label = Label::ThreeBytesLabel([7, 7, 7]);
                    if label == Label::ReUse {
                        let pp = crate::hostile::mk_complete(1, &[7, 7, 7], 0x0800, b"");
                        if let Ok(Ok((DecapStatus::CompletedPkt(b, _), _))) = dec_guard(&mut dec, &pp) {
                            let _ = dec.provision_storage(b);
                        }
                    }
                    let want_label = if label == Label::ReUse { prime_label } else { label };
                    let d = dec_guard(&mut dec, &buf);
                    match &d {
                        Ok(Ok((DecapStatus::CompletedPkt(b, m), c))) if *c == buf.len() && m.pdu_len() == n && b[..n] == payload[..] && m.protocol_type() == ptype && m.label() == want_label => {
                            rep.nontrivial(mix(1, mix(lt as u64, n as u64)));
                        }
                        o => rep.violation("C20", format!("decap-differs:complete:{}", lk), || format!("decap(generate(complete, payload {}B, label {})) = {}", n, label_str(&label), dec_res_str(o)), &replay),
                    }
                }
                rep.count("c20.complete");
            }
            // ------------------------------------------------ first fragment (payload = first n bytes of a longer PDU)
            if 3 + 2 + lb.len() + n <= 4095 {
                // >= 4 so that the PDU cannot fit the buffer as a complete packet and the encapsulator produces the
                // same split; one case in eight: 0 (the first fragment carries the whole PDU, the end fragment only
                // the CRC — a well-formed description the encapsulator never produces: encap comparison skipped)
                let rest0 = if (n + label_bytes(&label).len()) % 8 == 5 { 0 } else { 4 + rng.below(50) };
                // tiny first fragments also with PDUs that are shorter than a label (rest 0..=3: as a complete packet would
                // fit the same buffer the encapsulator does not produce this split, encap comparison skipped)
                let rests: Vec<usize> = if n <= 8 { vec![rest0, 0, 1, 2, 3, 6] } else { vec![rest0] };
                for rest in rests {
                    let mut pdu = payload.clone();
                    pdu.extend(rng.bytes(rest));
                    let total = (2 + lb.len() + pdu.len()) as u16;
                    let gl = (3 + 2 + lb.len() + n) as u16;
                    let p = GseFirstFragPacket::new(gl, frag_id, total, ptype, label, &payload);
                    let mut buf = vec![0u8; gl as usize + 2];
                    rep.eval();
                    let r = guard(|| p.generate(&mut buf));
                    let want = wire::serialise(&Fields { kind: Kind::First, lt, frag_id, total_len: total, ptype, label: &lb, exts: &[], final_ext: false, payload: &payload, crc: 0 });
                    if r.is_err() || buf != want {
                        rep.violation("C20", format!("generate:first:{}", lk), || format!("GseFirstFragPacket(gse_len {}, id {}, total {}, type {:#06x}, label {}, payload {}B).generate = {}, TS 102 606 serialisation {}", gl, frag_id, total, ptype, label_str(&label), n, hex_short(&buf, 40), hex_short(&want, 40)), &replay);
                    } else {
                        match guard(|| GseFirstFragPacket::parse(&buf).map(|q| q == p)) {
                            Ok(Ok(true)) => {}
                            o => rep.violation("C20", format!("parse:first:{}", lk), || format!("parse(generate(first fragment, payload {}B, label {})) != original: {:?}", n, label_str(&label), o), &replay),
                        }
                        // the total length is a free 16-bit field of the description: the same packet with other totals
                        for t2 in [4095u16, 4096, 4097, 0x1FFF, 0x8000, 0xFFFF, rng.next() as u16] {
                            rep.eval();
                            let p2 = GseFirstFragPacket::new(gl, frag_id, t2, ptype, label, &payload);
                            let mut b2 = vec![0u8; gl as usize + 2];
                            let w2 = wire::serialise(&Fields { kind: Kind::First, lt, frag_id, total_len: t2, ptype, label: &lb, exts: &[], final_ext: false, payload: &payload, crc: 0 });
                            match guard(|| {
                                p2.generate(&mut b2);
                                GseFirstFragPacket::parse(&b2).map(|q| q == p2)
                            }) {
                                Ok(Ok(true)) if b2 == w2 => {}
                                o => rep.violation("C20", format!("generate-parse:first:total-length:{}", lk), || format!("first fragment description with total length {}: generate {} (reference {}), parse(generate(x)) == x: {:?}", t2, hex_short(&b2, 24), hex_short(&w2, 24), o), &replay),
                            }
                        }
                        let mut enc = Encapsulator::new(DefaultCrc {});
                        let mut eb = vec![0u8; gl as usize + 2];
                        match guard(|| enc.encap(&pdu, frag_id, EncapMetadata::new(ptype, label), &mut eb)) {
                            _ if rest < 4 => rep.count("c20.first-carrying-whole-pdu"),
                            Ok(Ok(EncapStatus::FragmentedPkt(m, c))) if m as usize == eb.len() && eb == buf && c.len_pdu_frag() as usize == n => {}
                            o => rep.violation("C20", format!("encap-differs:first:{}", lk), || format!("encap(pdu {}B, label {}, buffer {}B) = {:?} bytes {}, utils generate {}", pdu.len(), label_str(&label), eb.len(), o.map(|x| format!("{:?}", x)), hex_short(&eb, 40), hex_short(&buf, 40)), &replay),
                        }
                        // memories of 1, 3, 5, 6 slots (the fragment id is seeded: every slot mapping is exercised)
                        let mut dec = plain_dec([1usize, 3, 5, 6][n % 4], pdu.len(), 1, pdu.len(), MandTable::none());
                        let prime_label = if n % 2 == 1 { Label::SixBytesLabel([7, 7, 7, 7, 7, 1]) } else { Label::ThreeBytesLabel([7, 7, 7]) };
                        if label == Label::ReUse {
                            let pp = if n % 2 == 1 { crate::hostile::mk_complete(0, &[7, 7, 7, 7, 7, 1], 0x0800, b"") } else { crate::hostile::mk_complete(1, &[7, 7, 7], 0x0800, b"") };
                            if let Ok(Ok((DecapStatus::CompletedPkt(b, _), _))) = dec_guard(&mut dec, &pp) {
                                let _ = dec.provision_storage(b);
                            }
                        }
                        let want_label = if label == Label::ReUse { prime_label } else { label };
                        let d = dec_guard(&mut dec, &buf);
                        let mut ok = matches!(&d, Ok(Ok((DecapStatus::FragmentedPkt(m), c))) if *c == buf.len() && m.protocol_type() == ptype && m.label() == want_label);
                        if ok {
                            // the context the decapsulator stored has the same field values: finish the PDU
                            // with an end fragment generated by utils and compare the delivery
                            let crc = fr.gse(total, ptype, &lb, &pdu);
                            let e = GseEndFragPacket::new((1 + rest + 4) as u16, frag_id, &pdu[n..], crc);
                            let mut ebuf = vec![0u8; 2 + 1 + rest + 4];
                            let _ = guard(|| e.generate(&mut ebuf));
                            if n % 2 == 0 {
                                // the label memory is emptied between the fragments (frame boundary): the end fragment of a
                                // train whose first fragment re-used a label needs no label any more
                                dec.reset_last_label();
                            }
                            let d2 = dec_guard(&mut dec, &ebuf);
                            ok = matches!(&d2, Ok(Ok((DecapStatus::CompletedPkt(b, m), c))) if *c == ebuf.len() && m.pdu_len() == pdu.len() && b[..pdu.len()] == pdu[..] && m.protocol_type() == ptype && m.label() == want_label);
                            if !ok {
                                rep.violation("C20", format!("decap-differs:first+end:{}", lk), || format!("decap(generate(first, payload {}B, label {})) then decap(generate(end, {}B)) = {}", n, label_str(&label), rest, dec_res_str(&d2)), &replay);
                            } else {
                                rep.nontrivial(mix(2, mix(lt as u64, n as u64)));
                            }
                        } else {
                            rep.violation("C20", format!("decap-differs:first:{}", lk), || format!("decap(generate(first fragment, payload {}B, label {})) = {}", n, label_str(&label), dec_res_str(&d)), &replay);
                        }
                    }
                }
                rep.count("c20.first");
            }
        }
        // ------------------------------------------------ intermediate / end (no label)
        let frag_id = rng.byte();
        let crc = rng.next() as u32;
        if n >= 1 && 1 + n <= 4095 {
            let gl = (1 + n) as u16;
            let p = GseIntermediatePacket::new(gl, frag_id, &payload);
            let mut buf = vec![0u8; gl as usize + 2];
            rep.eval();
            let r = guard(|| p.generate(&mut buf));
            let want = crate::hostile::mk_inter(frag_id, &payload);
            if r.is_err() || buf != want {
                rep.violation("C20", "generate:intermediate".into(), || format!("GseIntermediatePacket(gse_len {}, id {}, payload {}B).generate = {}, TS 102 606 serialisation {}", gl, frag_id, n, hex_short(&buf, 40), hex_short(&want, 40)), &replay);
            } else {
                match guard(|| GseIntermediatePacket::parse(&buf).map(|q| q == p)) {
                    Ok(Ok(true)) => {}
                    o => rep.violation("C20", "parse:intermediate".into(), || format!("parse(generate(intermediate, payload {}B)) != original: {:?}", n, o), &replay),
                }
                // encapsulator from a context at the same position: pdu = prefix | payload | rest (rest >= 1 so that it stays intermediate)
                let pre = rng.below(20);
                let mut pdu = rng.bytes(pre);
                pdu.extend_from_slice(&payload);
                let more = 1 + rng.below(10);
                pdu.extend(rng.bytes(more));
                let enc = Encapsulator::new(DefaultCrc {});
                let mut eb = vec![0u8; gl as usize + 2];
                let ctx = ContextFrag::new(frag_id, crc, pre as u16);
                match guard(|| enc.encap_frag(&pdu, &ctx, &mut eb)) {
                    Ok(Ok(EncapStatus::FragmentedPkt(m, c))) if m as usize == eb.len() && eb == buf && c.len_pdu_frag() as usize == pre + n => {
                        rep.nontrivial(mix(3, n as u64));
                    }
                    o => rep.violation("C20", "encap-differs:intermediate".into(), || format!("encap_frag(pdu {}B, pos {}, buffer {}B) = {:?} bytes {}, utils generate {}", pdu.len(), pre, eb.len(), o.map(|x| format!("{:?}", x)), hex_short(&eb, 40), hex_short(&buf, 40)), &replay),
                }
            }
            rep.count("c20.intermediate");
        }
        if 1 + n + 4 <= 4095 {
            let gl = (1 + n + 4) as u16;
            let p = GseEndFragPacket::new(gl, frag_id, &payload, crc);
            let mut buf = vec![0u8; gl as usize + 2];
            rep.eval();
            let r = guard(|| p.generate(&mut buf));
            let want = crate::hostile::mk_end(frag_id, &payload, crc);
            if r.is_err() || buf != want {
                rep.violation("C20", "generate:end".into(), || format!("GseEndFragPacket(gse_len {}, id {}, payload {}B, crc {:#010x}).generate = {}, TS 102 606 serialisation {}", gl, frag_id, n, crc, hex_short(&buf, 40), hex_short(&want, 40)), &replay);
            } else {
                match guard(|| GseEndFragPacket::parse(&buf).map(|q| q == p)) {
                    Ok(Ok(true)) => {}
                    o => rep.violation("C20", "parse:end".into(), || format!("parse(generate(end, payload {}B)) != original: {:?}", n, o), &replay),
                }
                let pre = rng.below(20);
                let mut pdu = rng.bytes(pre);
                pdu.extend_from_slice(&payload);
                let enc = Encapsulator::new(DefaultCrc {});
                let mut eb = vec![0u8; gl as usize + 2];
                let ctx = ContextFrag::new(frag_id, crc, pre as u16);
                match guard(|| enc.encap_frag(&pdu, &ctx, &mut eb)) {
                    Ok(Ok(EncapStatus::CompletedPkt(m))) if m as usize == eb.len() && eb == buf => {
                        rep.nontrivial(mix(4, n as u64));
                    }
                    o => rep.violation("C20", "encap-differs:end".into(), || format!("encap_frag(pdu {}B, pos {}, buffer {}B) = {:?} bytes {}, utils generate {}", pdu.len(), pre, eb.len(), o.map(|x| format!("{:?}", x)), hex_short(&eb, 40), hex_short(&buf, 40)), &replay),
                }
                // the same end packet when the caller offers far more room than needed (a whole frame, 64 KiB and more)
                if n % 16 == 3 {
                    for room in [4097usize, 4098, 65535, 65536, 65537, 70000, 131072] {
                        let mut eb = vec![0u8; room];
                        rep.eval();
                        match guard(|| enc.encap_frag(&pdu, &ctx, &mut eb)) {
                            Ok(Ok(EncapStatus::CompletedPkt(m))) if m as usize == buf.len() && eb[..buf.len()] == buf[..] => {}
                            o => {
                                rep.violation("C20", "encap-differs:end:large-buffer".into(), || format!("encap_frag(pdu {}B, pos {}, buffer {}B) = {:?}, utils generate {} ({} bytes)", pdu.len(), pre, room, o.map(|x| format!("{:?}", x)), hex_short(&buf, 24), buf.len()), &replay);
                                break;
                            }
                        }
                    }
                }
            }
            rep.count("c20.end");
        }
        if key == 26 {
            rep.sample(|| format!("lengths: payload 26B {} -> complete / first / intermediate / end descriptions generate == reference serialisation == encapsulator output; parse returns the description; decap accepts with the same fields", hex_short(&payload, 16)));
        }
    }
    fn floors(&self, _cx: &Cx, rep: &mut Report) {
        for k in ["c20.complete", "c20.first", "c20.intermediate", "c20.end", "c20.maxtotal", "c20.ids"] {
            if rep.get(k) == 0 {
                rep.floors_missing.push(format!("C20 floor: counter {} is 0", k));
            }
        }
    }
}
