//! C06 — see sendwl.rs (shared sender-side workload) and sender.rs (oracles).
use super::sendwl;
use crate::report::Report;
use crate::sender::*;
use crate::{Cx, Gen, Property};

pub struct Prop;
pub static P: Prop = Prop;

impl Property for Prop {
    fn id(&self) -> &'static str {
        "C06"
    }
    fn rule(&self) -> &'static str {
        concat!("a call is non-trivial for C06 when it returned Ok (a packet was emitted, parsed by the independent codec and compared byte for byte with the reference serialisation). Generators: ", "see coverage.generators")
    }
    fn gens(&self, cx: &Cx) -> Vec<Gen> {
        sendwl::gens(cx)
    }
    fn run_key(&self, cx: &Cx, gen: &str, key: u64, rep: &mut Report) {
        // C06's own workload also evaluates the other sender oracles (reported as observations only)
        sendwl::run_key(cx, O_C06 | if "C06" == "C18" { 0 } else { O_C06 | O_C11 }, gen, key, rep)
    }
    fn floors(&self, _cx: &Cx, rep: &mut Report) {
        for k in "c06.parsed.complete,c06.parsed.first,c06.parsed.intermediate,c06.parsed.end".split(',') {
            if rep.get(k) == 0 {
                rep.floors_missing.push(format!("C06 floor: counter {} is 0", k));
            }
        }
        rep.notes.push(sendwl::RULE.to_string());
    }
}
