//! C07 — concurrent reassemblies are isolated under every interleaving (order-preserving merge).

use crate::hostile::{mk_complete, mk_end, mk_inter};
use crate::report::Report;
use crate::rng::{fnv, hex_short, mix, Rng};
use crate::train::build_train;
use crate::util::*;
use crate::wire::MandTable;
use crate::{Cx, Gen, Property};
use dvb_gse_rust::crc::DefaultCrc;
use dvb_gse_rust::gse_decap::DecapStatus;
use dvb_gse_rust::gse_encap::{EncapMetadata, Encapsulator};
use dvb_gse_rust::label::Label;

pub struct Prop;
pub static P: Prop = Prop;

/// shapes: number of fragments per train
fn shapes(cx: &Cx) -> Vec<Vec<usize>> {
    let mut v: Vec<Vec<usize>> = vec![vec![2, 2], vec![2, 3], vec![3, 3], vec![2, 4], vec![2, 5], vec![3, 4], vec![4, 4], vec![5, 5], vec![3, 3, 3], vec![2, 3, 4], vec![2, 2, 2, 2], vec![2, 2, 3]];
    if !cx.quick() {
        v.extend([vec![4, 4, 4], vec![3, 3, 3, 3], vec![5, 5, 2, 2], vec![4, 5, 5], vec![2, 2, 2, 3]]);
    }
    v
}

const PARTS: u64 = 8;
const SLOTV: u64 = 4;
/// memory sizes: powers of two and not (slot selection must be a true modulo)
const SLOT_VARIANTS: [usize; 4] = [4, 3, 6, 5];

#[derive(Clone)]
struct TrainT {
    id: u8,
    pdu: Vec<u8>,
    label: Label,
    ptype: u16,
    pkts: Vec<Vec<u8>>,
    /// ids of the header extensions the PDU was sent with (part of "its own metadata")
    ext_ids: Vec<u16>,
}

/// a fragment id that maps to the same memory slot as `id` (congruent modulo `slots` as plain integers,
/// no 8-bit wrap-around) and is not one of `used`
fn alias_id(id: u8, slots: usize, used: &[u8], pick: usize) -> Option<u8> {
    let mut c: Vec<u8> = Vec::new();
    let mut k = 1usize;
    loop {
        let up = id as usize + k * slots;
        let down = (id as usize).checked_sub(k * slots);
        if up > 255 && down.is_none() {
            break;
        }
        if up <= 255 && !used.contains(&(up as u8)) {
            c.push(up as u8);
        }
        if let Some(d) = down {
            if !used.contains(&(d as u8)) {
                c.push(d as u8);
            }
        }
        k += 1;
    }
    if c.is_empty() {
        None
    } else {
        Some(c[pick % c.len()])
    }
}

fn outcome(r: &DecRes) -> String {
    match r {
        Ok(Ok((DecapStatus::CompletedPkt(b, m), n))) => format!("C({},{:#06x},{},{:016x},{},x{:x?})", m.pdu_len(), m.protocol_type(), label_str(&m.label()), fnv(&b[..m.pdu_len().min(b.len())]), n, m.extensions().iter().map(|e| e.id()).collect::<Vec<_>>()),
        Ok(Ok((DecapStatus::FragmentedPkt(m), n))) => format!("F({:#06x},{},{},x{:x?})", m.protocol_type(), label_str(&m.label()), n, m.extensions().iter().map(|e| e.id()).collect::<Vec<_>>()),
        Ok(Ok((DecapStatus::Padding, n))) => format!("P({})", n),
        Ok(Err((e, n))) => format!("E({},{})", short_err(e), n),
        Err(p) => format!("PANIC({})", crate::mon::panic_class(p)),
    }
}

fn make_trains(rng: &mut Rng, shape: &[usize], slots: usize) -> Option<Vec<TrainT>> {
    let mut out = Vec::new();
    if shape.len() > slots {
        return None;
    }
    let base = rng.below(36) as u8;
    for (i, nf) in shape.iter().enumerate() {
        // ids distinct modulo the slot count (with one slot per id, the extreme ids are used)
        let id = if slots >= 256 {
            [0u8, 255, 64, 1, 128][i % 5]
        } else if slots == 100 || slots == 200 {
            // large memories: ids 64 and 128 apart (one-bit-per-slot summaries folded modulo a machine word)
            let b = base;
            [b, b + 64, if slots == 200 { b + 128 } else { b + 27 }, b + 1, b + 65][i % 5]
        } else if slots == 255 {
            // 255 slots: ids 0..=254 are distinct slots, id 255 shares slot 0 (used as the aliasing stray)
            [0u8, 254, 1, 127, 128][i % 5]
        } else {
            (i + slots * rng.below(256 / slots)) as u8
        };
        let plen = *nf * 6 + rng.below(12);
        let pdu = rng.bytes(plen);
        let label = gen_label(rng, [0usize, 2, 4, 3][i % 4]);
        let ptype = 0x0800 + i as u16;
        let mut enc = Encapsulator::new(DefaultCrc {});
        enc.disable_re_use_label();
        let meta = EncapMetadata::new(ptype, label);
        let ll = label_bytes(&label).len();
        // split into exactly nf packets: first carries a, intermediates carry b, end carries the rest
        let per = plen / *nf;
        // one train in three carries header extensions (an optional one with data, sometimes a second without)
        let exts: Option<Vec<dvb_gse_rust::header_extension::Extension>> = if (i + plen) % 3 == 0 {
            let mut v = vec![dvb_gse_rust::header_extension::Extension::new(0x0200 | (plen as u16 & 0xFF), &[i as u8, 0xEE]).ok()?];
            if plen % 2 == 0 {
                v.push(dvb_gse_rust::header_extension::Extension::new(0x0100 | i as u16, &[]).ok()?);
            }
            Some(v)
        } else {
            None
        };
        let ext_ids: Vec<u16> = exts.as_ref().map(|v| v.iter().map(|e| e.id()).collect()).unwrap_or_default();
        let ext_len: usize = exts.as_ref().map(|v| v.iter().map(|e| e.len()).sum()).unwrap_or(0);
        let first_buf = 7 + ll + ext_len + per.max(1);
        let t = build_train(&mut enc, &pdu, id, meta, exts, |k| if k == 0 { first_buf } else if k + 1 < *nf { 3 + per.max(1) } else { 4097 }, 64).ok()?;
        if !t.complete || t.pkts.len() != *nf {
            return None;
        }
        out.push(TrainT { id, pdu, label, ptype, pkts: t.pkts, ext_ids });
    }
    Some(out)
}

/// enumerate all order-preserving merges of sequences with the given lengths; calls f(order) where
/// order[i] = index of the train whose next packet comes at position i; returns number enumerated
fn merges(counts: &mut Vec<usize>, cur: &mut Vec<usize>, total: usize, idx: &mut u64, part: u64, f: &mut dyn FnMut(&[usize])) {
    if cur.len() == total {
        if *idx % PARTS == part && !crate::expired() {
            f(cur);
        }
        *idx += 1;
        return;
    }
    for t in 0..counts.len() {
        if counts[t] > 0 {
            counts[t] -= 1;
            cur.push(t);
            merges(counts, cur, total, idx, part, f);
            cur.pop();
            counts[t] += 1;
        }
    }
}

impl Property for Prop {
    fn id(&self) -> &'static str {
        "C07"
    }
    fn rule(&self) -> &'static str {
        "merges: for each shape (fragments per PDU: 2x2, 2x3, 3x3, 2x4, 2x5, 3x4, 4x4, 5x5, 3x3x3, 2x3x4, 2x2x2x2, 2x2x3; thorough adds 4x4x4, 3x3x3x3, 5x5x2x2, 4x5x5, 2x2x2x3) trains (one in three with header extensions, which belong to the delivered metadata) are built by the real encapsulator on fragment ids distinct modulo the slot count (each shape on memories of 4, 3, 6 and 5 slots) and EVERY order-preserving merge is decapsulated on a fresh receiver (key = shape x memory size x 8 parts of the merge index space); the result stream restricted to each train must equal that train decapsulated alone, with exactly one delivery per PDU at its own end fragment. strays: for every merge of the small shapes one stray packet is inserted at EVERY position from {intermediate / end of an unknown id in an empty slot, intermediate / end of an id aliasing an open slot (id +/- slots), complete packet (accepted), complete packet too large for the storage (rejected), padding, a first fragment of an unknown or aliasing id that the receiver refuses (unknown mandatory extension, null label, total length too small: a refused first fragment does not claim the slot), an intermediate / end fragment carrying a train's own id before that train has started, and the non-packet event 'the application provisions storage until the memory reports it is full'}; the packet strays whose rejection must consume exactly the packet are also presented FRAMED (stray and the following train packet in one buffer, walked by consumed lengths). restart: a new first fragment on the same id restarts only that id (one run in three with the free list topped up to full just before the restart; also when the abandoned and the new PDU differ in label mode: one first fragment carries its label, the other re-uses the preceding packet's). sampled: random merges of 4x5 with an aliasing stray on memories of 4..7, 255, 256 slots (ids 0, 255, 64, 1 there) and 100 / 200 slots (ids 64 and 128 apart). reuse-strays: all merges of 2x2, 2x3, 3x3, 2x2x2 where every PDU carries the same label and the re-use-enabled encapsulator is driven in the merge order (substituted first fragments; every second PDU through encap_ext with an optional extension; each PDU must be delivered exactly once), with a stray intermediate / end packet of an unknown or aliasing id at every position; reference = the same stream without the stray; additionally an extra PDU whose damaged end fragment (length mismatch) is rejected at every position. reuse two-labels: the same merges again with the odd trains carrying a DIFFERENT label of the same size, after an opening complete packet carrying the first label (so a first fragment substituted by re-use is followed by start packets of the other label before its own end arrives); in both variants an absolute oracle, independent of the code under test, requires every status of a packet of train t to carry t's own protocol type and label and every delivery to be t's own PDU. allopen: a PDU in flight on every one of the 256 fragment ids at once (256 / 300 slots; id order, reverse, permuted): each delivered exactly once. scarce: 4 trains of 3 fragments with only 1..3 storage buffers: every PDU whose first fragment was accepted is delivered exactly once. (All receivers are built with max_pdu_frag = length of the longest train.) Evaluations = decap calls; non-trivial = a merge in which at least two trains were really interleaved; fingerprint = hash(shape, merge order, stray)."
    }
    fn gens(&self, cx: &Cx) -> Vec<Gen> {
        let s = shapes(cx).len() as u64;
        vec![
            Gen { name: "merges", count: s * SLOTV * PARTS, exhaustive: true },
            Gen { name: "strays", count: 6 * SLOTV * PARTS, exhaustive: true },
            Gen { name: "restart", count: cx.n(2_000, 100_000), exhaustive: false },
            Gen { name: "sampled", count: cx.n(10_000, 1_000_000), exhaustive: false },
            Gen { name: "reuse-strays", count: 2 * 4 * 2 * PARTS, exhaustive: true },
            Gen { name: "scarce", count: cx.n(3_000, 300_000), exhaustive: false },
            Gen { name: "allopen", count: 6, exhaustive: true },
        ]
    }
    fn run_key(&self, cx: &Cx, gen: &str, key: u64, rep: &mut Report) {
        let replay_s = format!("gen={} key={} seed={} profile={}", gen, key, cx.seed, cx.profile);
        let replay = || replay_s.clone();
        // memory sizes incl. non powers of two (slot selection must be a true modulo)
        // key layout for merges / strays: ((shape * SLOTV) + slot variant) * PARTS + part
        let slots = match gen {
            "merges" | "strays" => SLOT_VARIANTS[((key / PARTS) % SLOTV) as usize],
            "sampled" | "scarce" => [4usize, 5, 6, 7, 256, 255, 100, 200][(key % 8) as usize],
            _ => [4usize, 3, 6, 5, 2, 8][(key % 6) as usize],
        };
        let table = MandTable::none();
        // the alone-reference of a train: outcomes when decapsulated alone on a fresh receiver
        let alone = |t: &TrainT| -> Vec<String> {
            let mut d = plain_dec(slots, 64, (slots + 2).min(10), 64, MandTable::none());
            t.pkts.iter().map(|p| outcome(&dec_guard(&mut d, p))).collect()
        };
        // stray = (position, packet, name, framed): framed = the stray and the train packet that follows it are given to
        // decap in ONE buffer which is walked by consumed lengths, as a frame would be
        let run_merge = |trains: &[TrainT], refs: &[Vec<String>], order: &[usize], stray: Option<(usize, &Vec<u8>, &str, bool)>, rep: &mut Report| -> bool {
            // the constructor's max_pdu_frag argument is set to the length of the longest train: rejected stray
            // packets must not count against a PDU in progress
            let maxfrag = trains.iter().map(|t| t.pkts.len()).max().unwrap_or(0);
            let mut d = plain_dec_ex(slots, 64, (slots + 2).min(10), 64, table.clone(), 0, maxfrag);
            let mut next = vec![0usize; trains.len()];
            let mut delivered = vec![0usize; trains.len()];
            let mut pos = 0usize;
            let total = order.len();
            let mut prefix: Option<&Vec<u8>> = None;
            for step in 0..=total {
                if let Some((at, pkt, sname, framed)) = stray {
                    if at == step {
                        if sname == "provision-until-full" {
                            // the application tops the free list up until the memory reports it is full
                            for _ in 0..300 {
                                rep.eval();
                                if d.provision_storage(vec![0u8; 64].into_boxed_slice()).is_err() {
                                    break;
                                }
                            }
                        } else if framed && step < total {
                            prefix = Some(pkt);
                        } else {
                            rep.eval();
                            let r = dec_guard(&mut d, pkt);
                            if let Ok(Ok((DecapStatus::CompletedPkt(b, _), _))) = r {
                                // the stray complete packet is consumed by the application: give storage back unless
                                // the scenario is "no storage"
                                let _ = d.provision_storage(b);
                            } else if r.is_err() {
                                rep.violation("C07", format!("stray-panics:{}", sname), || format!("stray packet {} ({}) panicked the receiver: {}", hex_short(pkt, 32), sname, outcome(&r)), &replay);
                                return false;
                            }
                        }
                    }
                }
                if step == total {
                    break;
                }
                let t = order[pos];
                pos += 1;
                let k = next[t];
                next[t] += 1;
                rep.eval();
                let r = match prefix.take() {
                    None => dec_guard(&mut d, &trains[t].pkts[k]),
                    Some(pre) => {
                        let sname = stray.map(|s| s.2).unwrap_or("none");
                        let mut frame = pre.clone();
                        frame.extend_from_slice(&trains[t].pkts[k]);
                        let r1 = dec_guard(&mut d, &frame);
                        let n1 = match &r1 {
                            Ok(Ok((_, n))) => *n,
                            Ok(Err((_, n))) => *n,
                            Err(_) => {
                                rep.violation("C07", format!("stray-panics:{}", sname), || format!("stray packet {} ({}) panicked the receiver: {}", hex_short(pre, 32), sname, outcome(&r1)), &replay);
                                return false;
                            }
                        };
                        if let Ok(Ok((DecapStatus::CompletedPkt(b, _), _))) = r1 {
                            let _ = d.provision_storage(b);
                        }
                        rep.eval();
                        rep.count("c07.framed-strays");
                        // the frame walker continues where the stray's consumed length points
                        dec_guard(&mut d, &frame[n1.min(frame.len())..])
                    }
                };
                let o = outcome(&r);
                if o != refs[t][k] {
                    let sn = stray.map(|s| if s.3 { format!("{}+framed", s.2) } else { s.2.to_string() }).unwrap_or("none".into());
                    rep.violation("C07", format!("interleaving-changes-outcome:stray-{}:{}", sn, if k + 1 == trains[t].pkts.len() { "end" } else if k == 0 { "first" } else { "intermediate" }), || format!("trains {:?} (ids {:?}), merge order {:?}, stray {:?}: packet {} of train {} -> {} but alone -> {}", trains.iter().map(|t| t.pkts.len()).collect::<Vec<_>>(), trains.iter().map(|t| t.id).collect::<Vec<_>>(), order, stray.map(|s| (s.0, s.2, hex_short(s.1, 24))), k, t, o, refs[t][k]), &replay);
                    return false;
                }
                if let Ok(Ok((DecapStatus::CompletedPkt(b, m), _))) = r {
                    delivered[t] += 1;
                    let tr = &trains[t];
                    let got_ext: Vec<u16> = m.extensions().iter().map(|e| e.id()).collect();
                    if k + 1 != tr.pkts.len() || m.pdu_len() != tr.pdu.len() || b[..tr.pdu.len()] != tr.pdu[..] || m.label() != tr.label || m.protocol_type() != tr.ptype || got_ext != tr.ext_ids {
                        rep.violation("C07", "delivery-not-intact".into(), || format!("merge order {:?}: train {} delivered at packet {} with {} bytes / label {} / type {:#06x} / extensions {:x?} (sent with {:x?})", order, t, k, m.pdu_len(), label_str(&m.label()), m.protocol_type(), got_ext, tr.ext_ids), &replay);
                        return false;
                    }
                    let _ = d.provision_storage(b);
                }
            }
            if delivered.iter().any(|x| *x != 1) {
                rep.violation("C07", "not-exactly-once".into(), || format!("merge order {:?}: deliveries per train {:?}", order, delivered), &replay);
                return false;
            }
            true
        };
        match gen {
            "merges" | "strays" => {
                let sh = shapes(cx);
                let (shape, part) = if gen == "merges" { (sh[(key / PARTS / SLOTV) as usize].clone(), key % PARTS) } else { (sh[[0usize, 1, 2, 8, 10, 11][(key / PARTS / SLOTV) as usize]].clone(), key % PARTS) };
                if shape.len() > slots {
                    rep.count("c07.shape-needs-more-slots");
                    return;
                }
                let mut rng = Rng::derive(cx.seed, fnv(b"merges-trains"), fnv(format!("{:?}/{}", shape, slots).as_bytes()));
                let trains = match make_trains(&mut rng, &shape, slots) {
                    Some(t) => t,
                    None => {
                        rep.count("c07.train-build-failed");
                        return;
                    }
                };
                let refs: Vec<Vec<String>> = trains.iter().map(|t| alone(t)).collect();
                for (t, r) in trains.iter().zip(refs.iter()) {
                    if !r.last().unwrap().starts_with("C(") {
                        rep.count("c07.train-not-delivered-alone");
                        let _ = t;
                        return;
                    }
                }
                let total: usize = shape.iter().sum();
                // stray candidates
                let used: Vec<u8> = trains.iter().map(|t| t.id).collect();
                let empty_slot_id = (0..=255u8).find(|i| !used.iter().any(|u| (*u as usize) % slots == (*i as usize) % slots));
                let alias = match alias_id(trains[0].id, slots, &used, part as usize) {
                    Some(a) => a,
                    None => return,
                };
                // (packet, name, may be framed): framing only for the rejections that must consume exactly the packet
                let mut strays: Vec<(Vec<u8>, &str, bool)> = Vec::new();
                if gen == "strays" {
                    let unknown_ext = |id: u8| crate::wire::serialise(&crate::wire::Fields { kind: crate::wire::Kind::First, lt: 1, frag_id: id, total_len: 60, ptype: 0x0800, label: &[9, 9, 9], exts: &[crate::wire::ExtEntry { id: 0x0042, data: vec![] }], final_ext: true, payload: b"first", crc: 0 });
                    if let Some(e) = empty_slot_id {
                        strays.push((mk_inter(e, b"stray"), "intermediate-unknown-id", true));
                        strays.push((mk_end(e, b"stray", 0x0BAD_C0DE), "end-unknown-id", true));
                        strays.push((unknown_ext(e), "first-unknown-id-refused-unknown-mandatory", true));
                    }
                    strays.push((mk_inter(alias, b"alias"), "intermediate-aliasing-id", true));
                    strays.push((mk_end(alias, b"alias", 0x0BAD_C0DE), "end-aliasing-id", true));
                    strays.push((mk_complete(1, &[9, 9, 9], 0x86DD, b"complete"), "complete-accepted", true));
                    strays.push((mk_complete(1, &[9, 9, 9], 0x86DD, &[0x55u8; 200]), "complete-rejected-oversize", true));
                    strays.push((vec![0u8; 4], "padding", false));
                    // first fragments of an id that shares a slot with an open reassembly and that the receiver
                    // refuses: a refused first fragment does not claim the slot
                    strays.push((crate::hostile::mk_first(0, &[0, 0, 0, 0, 0, 0], alias, 60, 0x0800, b"first"), "first-aliasing-id-refused-null-label", false));
                    strays.push((unknown_ext(alias), "first-aliasing-id-refused-unknown-mandatory", true));
                    strays.push((crate::hostile::mk_first(1, &[9, 9, 9], alias, 3, 0x0800, b"firstfirst"), "first-aliasing-id-refused-short-total", false));
                    // not a packet: the application tops the free list up until the memory says it is full
                    strays.push((vec![], "provision-until-full", false));
                    // an intermediate / end fragment carrying the id of train 0 / of the last train BEFORE that train
                    // has started (only positions up to the train's first packet are used): it is refused and must
                    // not be remembered against the train that starts afterwards
                    // a damaged first-fragment header announcing GSE length 0 (it carries no fragment id at all), followed
                    // in its buffer by a byte equal to train 0's id and zeroes
                    strays.push((vec![0xA0, 0x00, trains[0].id, 0x00, 0x00], "start-header-with-gse-length-0-then-id-byte", false));
                    strays.push((mk_inter(trains[0].id, b"early"), "early-intermediate-of-train-0", true));
                    strays.push((mk_end(trains[trains.len() - 1].id, b"early", 0x0BAD_C0DE), "early-end-of-last-train", true));
                }
                let mut counts = shape.clone();
                let mut cur = Vec::new();
                let mut idx = 0u64;
                let mut n_merges = 0u64;
                let mut interleaved = 0u64;
                let mut f = |order: &[usize]| {
                    n_merges += 1;
                    let mixed = order.windows(2).filter(|w| w[0] != w[1]).count() >= 2;
                    if gen == "merges" {
                        if run_merge(&trains, &refs, order, None, rep) && mixed {
                            interleaved += 1;
                            rep.nontrivial(mix(fnv(format!("{:?}", shape).as_bytes()), fnv(&order.iter().map(|x| *x as u8).collect::<Vec<_>>())));
                        }
                    } else {
                        for (si, (pkt, name, frameable)) in strays.iter().enumerate() {
                            for at in 0..=total {
                                if name.starts_with("early-") {
                                    let tr = if name.ends_with("train-0") { 0 } else { trains.len() - 1 };
                                    if at > order.iter().position(|x| *x == tr).unwrap_or(0) {
                                        continue;
                                    }
                                }
                                for framed in [false, true] {
                                    if framed && (!*frameable || at == total) {
                                        continue;
                                    }
                                    if run_merge(&trains, &refs, order, Some((at, pkt, name, framed)), rep) {
                                        rep.count_n("c07.stray-runs", 1);
                                        if mixed {
                                            rep.nontrivial(mix(mix(fnv(format!("{:?}", shape).as_bytes()), fnv(&order.iter().map(|x| *x as u8).collect::<Vec<_>>())), (si * 128 + at * 2 + framed as usize) as u64));
                                        }
                                    }
                                }
                            }
                        }
                    }
                };
                merges(&mut counts, &mut cur, total, &mut idx, part, &mut f);
                rep.count_n("c07.merges", n_merges);
                rep.count_n("c07.interleaved", interleaved);
                if part == 0 && gen == "merges" {
                    rep.sample(|| format!("merges: shape {:?}, ids {:?}: {} order-preserving merges in total, all deliver each PDU exactly once, intact", shape, used, idx));
                }
            }
            "reuse-strays" => {
                // all PDUs carry the SAME label and the sender's re-use is on: the encapsulator is driven in the
                // merge order, so that substituted first fragments follow the packet that carries the label.
                // A stray intermediate / end packet of another id must not change anything (the reference is
                // the same stream without the stray).
                // keys of the second half ("two labels"): the odd trains carry a DIFFERENT label of the same size and the
                // stream is opened by a complete packet carrying the first label, so that a first fragment substituted
                // by re-use is followed by start packets of another label before its own end fragment arrives
                let two = key / (PARTS * 8) == 1;
                let shape: Vec<usize> = [vec![2usize, 2], vec![2, 3], vec![3, 3], vec![2, 2, 2]][(key / PARTS / 2 % 4) as usize].clone();
                let slots = [4usize, 3][((key / PARTS) % 2) as usize];
                let part = key % PARTS;
                let mut rng = Rng::derive(cx.seed, fnv(b"reuse-strays"), key / PARTS);
                let lk = if (key / PARTS) % 2 == 0 { 0 } else { 2 };
                let label = gen_label(&mut rng, lk);
                let ll = label_bytes(&label).len();
                let mut label2 = gen_label(&mut rng, lk);
                while label_bytes(&label2) == label_bytes(&label) {
                    label2 = gen_label(&mut rng, lk);
                }
                let mut labels: Vec<Label> = (0..shape.len()).map(|t| if two && t % 2 == 1 { label2 } else { label }).collect();
                let ids: Vec<u8> = (0..shape.len()).map(|i| (i + slots * rng.below(256 / slots)) as u8).collect();
                let mut pdus: Vec<Vec<u8>> = shape.iter().map(|nf| { let n = nf * 16 + rng.below(8); rng.bytes(n) }).collect();
                if two {
                    // the opener: index shape.len()
                    labels.push(label);
                    let n = 1 + rng.below(20);
                    pdus.push(rng.bytes(n));
                }
                let total: usize = shape.iter().sum();
                let empty_slot_id = (0..=255u8).find(|i| !ids.iter().any(|u| (*u as usize) % slots == (*i as usize) % slots));
                let alias = alias_id(ids[0], slots, &ids, part as usize);
                let mut strays: Vec<(Vec<u8>, &str)> = Vec::new();
                if let Some(e) = empty_slot_id {
                    strays.push((mk_inter(e, b"stray"), "intermediate-unknown-id"));
                    strays.push((mk_end(e, b"stray", 0x0BAD_C0DE), "end-unknown-id"));
                }
                if let Some(a) = alias {
                    strays.push((mk_inter(a, b"alias"), "intermediate-aliasing-id"));
                    strays.push((mk_end(a, b"alias", 0x0BAD_C0DE), "end-aliasing-id"));
                }
                let mut counts = shape.clone();
                let mut cur = Vec::new();
                let mut idx = 0u64;
                let mut f = |order: &[usize]| {
                    // build the stream with the real encapsulator in this order
                    let mut enc = Encapsulator::new(DefaultCrc {});
                    let mut ctxs: Vec<Option<dvb_gse_rust::gse_encap::ContextFrag>> = vec![None; shape.len()];
                    let mut sent = vec![0usize; shape.len()];
                    let mut stream: Vec<(usize, Vec<u8>)> = Vec::new();
                    if two {
                        let t = shape.len();
                        let mut buf = vec![0u8; 200];
                        match crate::mon::guard(|| enc.encap(&pdus[t], 0, EncapMetadata::new(0x0800 + t as u16, labels[t]), &mut buf)) {
                            Ok(Ok(st)) => {
                                let (n, c) = status_parts(&st);
                                if c.is_some() {
                                    rep.count("c07.reuse.sender-failed");
                                    return;
                                }
                                buf.truncate(n);
                                stream.push((t, buf));
                            }
                            _ => {
                                rep.count("c07.reuse.sender-failed");
                                return;
                            }
                        }
                    }
                    for &t in order {
                        let k = sent[t];
                        sent[t] += 1;
                        let per = (pdus[t].len() / shape[t]).max(1);
                        let mut buf = vec![0u8; 4097];
                        let r = if k == 0 {
                            // the label may or may not be substituted: offer room for the full label
                            // every second PDU is sent through encap_ext with one optional extension
                            if t % 2 == 1 {
                                let b = 7 + ll + 4 + per;
                                let e = vec![dvb_gse_rust::header_extension::Extension::new(0x0242, &[0xE0 | t as u8, 7]).unwrap()];
                                crate::mon::guard(|| enc.encap_ext(&pdus[t], ids[t], EncapMetadata::new(0x0800 + t as u16, labels[t]), &mut buf[..b], e))
                            } else {
                                let b = 7 + ll + per;
                                crate::mon::guard(|| enc.encap(&pdus[t], ids[t], EncapMetadata::new(0x0800 + t as u16, labels[t]), &mut buf[..b]))
                            }
                        } else {
                            let c = match ctxs[t] {
                                Some(c) => c,
                                None => {
                                    rep.count("c07.reuse.train-shape-lost");
                                    return;
                                }
                            };
                            let b = if k + 1 < shape[t] { 3 + per } else { 4097 };
                            crate::mon::guard(|| enc.encap_frag(&pdus[t], &c, &mut buf[..b]))
                        };
                        match r {
                            Ok(Ok(st)) => {
                                let (n, c) = status_parts(&st);
                                ctxs[t] = c;
                                buf.truncate(n);
                                stream.push((t, buf));
                            }
                            _ => {
                                rep.count("c07.reuse.sender-failed");
                                return;
                            }
                        }
                    }
                    if ctxs.iter().any(|c| c.is_some()) {
                        rep.count("c07.reuse.train-not-finished");
                        return;
                    }
                    let run = |stray: Option<(usize, &Vec<u8>)>, rep: &mut Report| -> Option<Vec<String>> {
                        let mut d = plain_dec(slots, 64, slots + 2, 64, MandTable::none());
                        let mut outs = Vec::new();
                        for (i, (_, p)) in stream.iter().enumerate() {
                            if let Some((at, sp)) = stray {
                                if at == i {
                                    rep.eval();
                                    let r = dec_guard(&mut d, sp);
                                    if r.is_err() {
                                        return None;
                                    }
                                }
                            }
                            rep.eval();
                            let r = dec_guard(&mut d, p);
                            outs.push(outcome(&r));
                            if let Ok(Ok((DecapStatus::CompletedPkt(b, _), _))) = r {
                                let _ = d.provision_storage(b);
                            }
                        }
                        Some(outs)
                    };
                    let reference = match run(None, rep) {
                        Some(r) => r,
                        None => return,
                    };
                    let delivered = reference.iter().filter(|o| o.starts_with("C(")).count();
                    if delivered != shape.len() + two as usize {
                        // all PDUs carry the same label and every re-use first fragment follows a start packet of this very
                        // stream: each PDU must be delivered exactly once, also without any stray
                        rep.violation("C07", "not-exactly-once:re-use-traffic".into(), || format!("shape {:?} ids {:?} label {} merge order {:?} (every second PDU sent through encap_ext): outcomes {:?}", shape, ids, label_str(&label), order, reference), &replay);
                        return;
                    }
                    // absolute oracle (the reference above is produced by the code under test): every status of a packet of
                    // train t carries t's own protocol type and label, and the delivery is t's PDU
                    for (i, (t, _)) in stream.iter().enumerate() {
                        let o = &reference[i];
                        let want = if o.starts_with("C(") {
                            Some(format!("C({},{:#06x},{},{:016x},", pdus[*t].len(), 0x0800 + *t as u16, label_str(&labels[*t]), fnv(&pdus[*t])))
                        } else if o.starts_with("F(") {
                            Some(format!("F({:#06x},{},", 0x0800 + *t as u16, label_str(&labels[*t])))
                        } else {
                            None
                        };
                        if let Some(w) = want {
                            if !o.starts_with(&w) {
                                rep.violation("C07", format!("foreign-metadata:re-use-traffic:{}", if two { "two-labels" } else { "one-label" }), || format!("shape {:?} ids {:?} labels {:?} merge order {:?}{}: packet {} (train {}) -> {} but that train's own PDU / protocol type / label give {}...", shape, ids, labels.iter().map(label_str).collect::<Vec<_>>(), order, if two { " after an opening complete packet" } else { "" }, i, t, o, w), &replay);
                                return;
                            }
                        }
                    }
                    if two {
                        rep.count("c07.reuse.two-label-streams");
                        if stream.iter().any(|(_, p)| p.len() > 2 && p[0] & 0xC0 == 0x80 && p[0] & 0x30 == 0x30) {
                            rep.count("c07.reuse.two-label-streams-with-substituted-first-fragment");
                        }
                    }
                    rep.count("c07.reuse.streams");
                    for (sp, sname) in &strays {
                        for at in 0..stream.len() {
                            match run(Some((at, sp)), rep) {
                                Some(o) if o == reference => {
                                    rep.count("c07.reuse.stray-runs");
                                }
                                Some(o) => {
                                    let i = (0..o.len()).find(|&i| o[i] != reference[i]).unwrap_or(0);
                                    rep.violation("C07", format!("stray-changes-outcome:re-use-traffic:{}", sname), || format!("shape {:?} ids {:?} label {} merge order {:?}: with the stray {} ({}) inserted before packet {}, packet {} of the stream -> {} instead of {}", shape, ids, label_str(&label), order, sname, hex_short(sp, 24), at, i, o[i], reference[i]), &replay);
                                    return;
                                }
                                None => {
                                    rep.violation("C07", format!("stray-panics:re-use-traffic:{}", sname), || format!("stray {} panicked the receiver", sname), &replay);
                                    return;
                                }
                            }
                        }
                    }
                    // an extra PDU X (same label, its own slot) whose first fragment opens the stream and whose END
                    // arrives damaged (payload cut short: length mismatch) at every later position: X is lost, every
                    // other PDU must be unaffected (reference = the stream with X's first fragment only)
                    if let Some(xid) = empty_slot_id {
                        let xpdu: Vec<u8> = (0..24u8).collect();
                        let mut enc2 = Encapsulator::new(DefaultCrc {});
                        let mut fb = vec![0u8; 7 + ll + 8];
                        let xfirst = match crate::mon::guard(|| enc2.encap(&xpdu, xid, EncapMetadata::new(0x0900, label), &mut fb)) {
                            Ok(Ok(st)) => {
                                let (n, c) = status_parts(&st);
                                fb.truncate(n);
                                c.map(|c| (fb.clone(), c))
                            }
                            _ => None,
                        };
                        if let Some((xf, xc)) = xfirst {
                            // the rest of the stream is produced by the SAME encapsulator state (label already sent)
                            let mut eb = vec![0u8; 200];
                            if let Ok(Ok(st)) = crate::mon::guard(|| enc2.encap_frag(&xpdu, &xc, &mut eb)) {
                                let (n, _) = status_parts(&st);
                                eb.truncate(n);
                                // damage: drop 3 payload bytes and fix the GSE length
                                let mut bad = eb.clone();
                                bad.drain(3..6);
                                let gl = bad.len() - 2;
                                bad[0] = (bad[0] & 0xF0) | ((gl >> 8) as u8 & 0x0F);
                                bad[1] = gl as u8;
                                // stream2 = X first + the trains re-encapsulated after it would change substitution of the
                                // first train's label; keep it simple: X's first fragment carries the label in full, the
                                // original stream starts with a full label too, so prepend X and replay the same packets
                                let run2 = |bad_at: Option<usize>, rep: &mut Report| -> Option<Vec<String>> {
                                    let mut d = plain_dec(slots, 64, slots + 2, 64, MandTable::none());
                                    let r0 = dec_guard(&mut d, &xf);
                                    if !matches!(r0, Ok(Ok((DecapStatus::FragmentedPkt(_), _)))) {
                                        return None;
                                    }
                                    let mut outs = Vec::new();
                                    for (i, (_, p)) in stream.iter().enumerate() {
                                        if bad_at == Some(i) {
                                            rep.eval();
                                            let rb = dec_guard(&mut d, &bad);
                                            if rb.is_err() {
                                                return None;
                                            }
                                        }
                                        rep.eval();
                                        let r = dec_guard(&mut d, p);
                                        outs.push(outcome(&r));
                                        if let Ok(Ok((DecapStatus::CompletedPkt(b, _), _))) = r {
                                            let _ = d.provision_storage(b);
                                        }
                                    }
                                    Some(outs)
                                };
                                if let Some(ref2) = run2(None, rep) {
                                    if ref2.iter().filter(|o| o.starts_with("C(")).count() == shape.len() {
                                        for at in 1..total {
                                            match run2(Some(at), rep) {
                                                Some(o) if o == ref2 => rep.count("c07.reuse.bad-end-runs"),
                                                Some(o) => {
                                                    let i = (0..o.len()).find(|&i| o[i] != ref2[i]).unwrap_or(0);
                                                    rep.violation("C07", "rejected-end-of-another-pdu-changes-outcome:re-use-traffic".into(), || format!("shape {:?} ids {:?} label {} merge order {:?}: PDU X (id {}) loses bytes, its end fragment {} is rejected before packet {}; packet {} of the stream -> {} instead of {}", shape, ids, label_str(&label), order, xid, hex_short(&bad, 24), at, i, o[i], ref2[i]), &replay);
                                                    return;
                                                }
                                                None => return,
                                            }
                                        }
                                    }
                                }
                            }
                        }
                    }
                    rep.nontrivial(mix(mix(0x5E05E, key / PARTS), fnv(&order.iter().map(|x| *x as u8).collect::<Vec<_>>())));
                };
                merges(&mut counts, &mut cur, total, &mut idx, part, &mut f);
            }
            "allopen" => {
                // one PDU in flight on EVERY fragment id (256 / 300-slot memories with a buffer for each): all first
                // fragments, then all intermediates, then all ends, in id order / reverse / a seeded permutation
                let mut rng = Rng::derive(cx.seed, fnv(gen.as_bytes()), key);
                let slots_a = [256usize, 300][(key % 2) as usize];
                let fr = crate::refcrc::FastRef::new();
                let mut ids: Vec<usize> = (0..256).collect();
                match key / 2 {
                    1 => ids.reverse(),
                    2 => {
                        for i in (1..256).rev() {
                            ids.swap(i, rng.below(i + 1));
                        }
                    }
                    _ => {}
                }
                let pdus: Vec<Vec<u8>> = (0..256usize).map(|i| { let n = 9 + i % 7; (0..n).map(|k| (i as u8).wrapping_mul(7).wrapping_add(k as u8)).collect() }).collect();
                let trains: Vec<Vec<Vec<u8>>> = (0..256usize).map(|i| crate::hostile::mk_train(&fr, 2, &[], i as u8, 0x0800 + (i as u16 % 5), &pdus[i], &[3, 6])).collect();
                let mut d = plain_dec(slots_a, 16, 258, 16, MandTable::none());
                let mut delivered = 0usize;
                for step in 0..3 {
                    for &i in &ids {
                        rep.eval();
                        let r = dec_guard(&mut d, &trains[i][step]);
                        let ok = match &r {
                            Ok(Ok((DecapStatus::FragmentedPkt(_), _))) => step < 2,
                            Ok(Ok((DecapStatus::CompletedPkt(b, m), _))) => step == 2 && m.pdu_len() == pdus[i].len() && b[..pdus[i].len()] == pdus[i][..] && m.protocol_type() == 0x0800 + (i as u16 % 5),
                            _ => false,
                        };
                        if !ok {
                            rep.violation("C07", format!("all-ids-in-flight:{}", ["first", "intermediate", "end"][step]), || format!("{}-slot memory with a PDU in flight on every fragment id: {} fragment of id {} -> {}", slots_a, ["first", "intermediate", "end"][step], i, outcome(&r)), &replay);
                            return;
                        }
                        if let Ok(Ok((DecapStatus::CompletedPkt(b, _), _))) = r {
                            delivered += 1;
                            let _ = d.provision_storage(b);
                        }
                    }
                }
                if delivered == 256 {
                    rep.count("c07.all-ids-in-flight-ok");
                    rep.nontrivial(mix(0xA11, key));
                }
            }
            "scarce" => {
                // more PDUs in flight than storage buffers: a PDU whose first fragment finds no storage is lost
                // as a whole, but every PDU whose first fragment was accepted is still delivered exactly once
                let mut rng = Rng::derive(cx.seed, fnv(gen.as_bytes()), key);
                let shape = vec![3usize, 3, 3, 3];
                let trains = match make_trains(&mut rng, &shape, slots) {
                    Some(t) => t,
                    None => return,
                };
                let nbuf = 1 + rng.below(3);
                let mut d = plain_dec(slots, 64, nbuf, 64, MandTable::none());
                let mut left = shape.clone();
                let mut order = Vec::new();
                while order.len() < 12 {
                    let t = rng.below(4);
                    if left[t] > 0 {
                        left[t] -= 1;
                        order.push(t);
                    }
                }
                let mut next = vec![0usize; 4];
                let mut started = vec![false; 4];
                let mut delivered = vec![0usize; 4];
                for &t in &order {
                    let k = next[t];
                    next[t] += 1;
                    rep.eval();
                    let r = dec_guard(&mut d, &trains[t].pkts[k]);
                    match &r {
                        Err(p) => {
                            rep.violation("C07", "scarce-storage:panic".into(), || format!("receiver panicked: {}", p), &replay);
                            return;
                        }
                        Ok(Ok((DecapStatus::FragmentedPkt(_), _))) => {
                            if k == 0 {
                                started[t] = true;
                            }
                        }
                        Ok(Ok((DecapStatus::CompletedPkt(b, m), _))) => {
                            delivered[t] += 1;
                            if m.pdu_len() != trains[t].pdu.len() || b[..trains[t].pdu.len()] != trains[t].pdu[..] || m.label() != trains[t].label {
                                rep.violation("C07", "scarce-storage:delivery-not-intact".into(), || format!("{} buffers, merge order {:?}: train {} delivered altered", nbuf, order, t), &replay);
                                return;
                            }
                            // the application keeps the delivered buffer: storage stays scarce
                        }
                        _ => {}
                    }
                }
                for t in 0..4 {
                    if started[t] && delivered[t] != 1 {
                        rep.violation("C07", "scarce-storage:started-train-not-delivered".into(), || format!("{} storage buffers on {} slots, ids {:?}, merge order {:?}: the first fragment of train {} was accepted but the PDU was delivered {} times (started {:?}, delivered {:?})", nbuf, slots, trains.iter().map(|t| t.id).collect::<Vec<_>>(), order, t, delivered[t], started, delivered), &replay);
                        return;
                    }
                    if !started[t] && delivered[t] != 0 {
                        rep.violation("C07", "scarce-storage:delivery-without-first".into(), || format!("train {} delivered although its first fragment was refused", t), &replay);
                        return;
                    }
                }
                rep.count("c07.scarce-ok");
                if started.iter().filter(|x| **x).count() >= 2 {
                    rep.nontrivial(mix(0x5CA2, key));
                }
            }
            "restart" => {
                let mut rng = Rng::derive(cx.seed, fnv(gen.as_bytes()), key);
                let shape = vec![3usize, 3];
                let trains = match make_trains(&mut rng, &shape, slots) {
                    Some(t) => t,
                    None => return,
                };
                // a second PDU on the same id as train 0
                let mut again = match make_trains(&mut rng, &[3usize], slots) {
                    Some(t) => t,
                    None => return,
                };
                let mut a = again.remove(0);
                for p in a.pkts.iter_mut() {
                    // same frag id as train 0 (byte 2 of every packet)
                    p[2] = trains[0].id;
                }
                // CRC does not cover the frag id, so the train stays valid
                let mut d = plain_dec(slots, 64, (slots + 2).min(10), 64, table.clone());
                // feed: t0[0], t1[0], t0[1] (old), then restart: a[0], t1[1], a[1], a[2] -> delivered a; t1[2] -> delivered t1
                let seq: Vec<(&Vec<u8>, &str)> = vec![(&trains[0].pkts[0], "F"), (&trains[1].pkts[0], "F"), (&trains[0].pkts[1], "F"), (&a.pkts[0], "F"), (&trains[1].pkts[1], "F"), (&a.pkts[1], "F"), (&a.pkts[2], "Ca"), (&trains[1].pkts[2], "C1")];
                let topup = key % 3 == 0;
                for (i, (p, want)) in seq.iter().enumerate() {
                    if topup && i == 3 {
                        // just before the restart the application tops the free list up until the memory says full
                        for _ in 0..32 {
                            if d.provision_storage(vec![0u8; 64].into_boxed_slice()).is_err() {
                                break;
                            }
                        }
                    }
                    rep.eval();
                    let r = dec_guard(&mut d, p);
                    let ok = match (&r, *want) {
                        (Ok(Ok((DecapStatus::FragmentedPkt(_), _))), "F") => true,
                        (Ok(Ok((DecapStatus::CompletedPkt(b, m), _))), "Ca") => m.pdu_len() == a.pdu.len() && b[..a.pdu.len()] == a.pdu[..] && m.label() == a.label,
                        (Ok(Ok((DecapStatus::CompletedPkt(b, m), _))), "C1") => m.pdu_len() == trains[1].pdu.len() && b[..trains[1].pdu.len()] == trains[1].pdu[..] && m.label() == trains[1].label,
                        _ => false,
                    };
                    if !ok {
                        rep.violation("C07", format!("restart-on-same-id:step{}{}", i, if topup { ":free-list-full" } else { "" }), || format!("restart history step {} ({}): expected {}, got {}", i, hex_short(p, 24), want, outcome(&r)), &replay);
                        return;
                    }
                    if let Ok(Ok((DecapStatus::CompletedPkt(b, _), _))) = r {
                        let _ = d.provision_storage(b);
                    }
                }
                rep.count("c07.restarts");
                rep.nontrivial(mix(0x4E57, key));
                // the same with the two PDUs on the id in DIFFERENT label modes (one first fragment carries its label,
                // the other re-uses the label of the packet before it): built by one re-use-enabled encapsulator
                let mode = key % 2; // 0: old train written label, new train re-use; 1: the reverse
                let label = gen_label(&mut rng, if key % 4 < 2 { 0 } else { 2 });
                let ll = label_bytes(&label).len();
                let idx = trains[0].id;
                let mut enc = Encapsulator::new(DefaultCrc {});
                let old_pdu = rng.bytes(30);
                let new_pdu = rng.bytes(33);
                let mut stream: Vec<(Vec<u8>, &str)> = Vec::new();
                let mut emit = |enc: &mut Encapsulator<DefaultCrc>, pdu: &[u8], ctx: Option<dvb_gse_rust::gse_encap::ContextFrag>, bl: usize| -> Option<(Vec<u8>, Option<dvb_gse_rust::gse_encap::ContextFrag>)> {
                    let mut b = vec![0u8; bl];
                    let r = match ctx {
                        None => crate::mon::guard(|| enc.encap(pdu, idx, EncapMetadata::new(0x0800, label), &mut b)),
                        Some(c) => crate::mon::guard(|| enc.encap_frag(pdu, &c, &mut b)),
                    };
                    match r {
                        Ok(Ok(st)) => {
                            let (n, c) = status_parts(&st);
                            b.truncate(n);
                            Some((b, c))
                        }
                        _ => None,
                    }
                };
                // mode 0: [old first (label written)] [new first (re-use)] ...; mode 1: [complete (label written)] [old first
                // (re-use)] then reset of the sender's label memory so that [new first] carries the label again
                let mut ok = true;
                if mode == 1 {
                    match emit(&mut enc, b"", None, 64) {
                        Some((p, None)) => stream.push((p, "C0")),
                        _ => ok = false,
                    }
                }
                let old_first = emit(&mut enc, &old_pdu, None, 7 + ll + 10);
                if mode == 1 {
                    enc.reset_last_label();
                }
                let new_first = emit(&mut enc, &new_pdu, None, 7 + ll + 10);
                match (old_first, new_first) {
                    (Some((of, Some(_))), Some((nf, Some(nc)))) if ok => {
                        let lt_old = crate::wire::lt_of_word(u16::from_be_bytes([of[0], of[1]]));
                        let lt_new = crate::wire::lt_of_word(u16::from_be_bytes([nf[0], nf[1]]));
                        if (lt_old == 3) == (lt_new == 3) {
                            rep.count("c07.restart-modes-not-different");
                        } else {
                            stream.push((of, "F"));
                            stream.push((nf, "F"));
                            let mut c = Some(nc);
                            while let Some(cc) = c {
                                match emit(&mut enc, &new_pdu, Some(cc), 3 + 12) {
                                    Some((p, c2)) => {
                                        stream.push((p, if c2.is_some() { "F" } else { "Cn" }));
                                        c = c2;
                                    }
                                    None => {
                                        rep.count("c07.restart-sender-failed");
                                        return;
                                    }
                                }
                            }
                            let mut d = plain_dec(slots, 64, (slots + 2).min(10), 64, table.clone());
                            for (i, (p, want)) in stream.iter().enumerate() {
                                rep.eval();
                                let r = dec_guard(&mut d, p);
                                let good = match (&r, *want) {
                                    (Ok(Ok((DecapStatus::FragmentedPkt(_), _))), "F") => true,
                                    (Ok(Ok((DecapStatus::CompletedPkt(_, _), _))), "C0") => true,
                                    (Ok(Ok((DecapStatus::CompletedPkt(b, m), _))), "Cn") => m.pdu_len() == new_pdu.len() && b[..new_pdu.len()] == new_pdu[..] && m.label() == label,
                                    _ => false,
                                };
                                if !good {
                                    rep.violation("C07", format!("restart-on-same-id-other-label-mode:{}", if mode == 0 { "written-then-re-use" } else { "re-use-then-written" }), || format!("id {}: a PDU whose first fragment has label type bits {} is abandoned, a PDU whose first fragment has label type bits {} restarts the id; packet {} ({}): expected {}, got {}", idx, lt_old, lt_new, i, hex_short(p, 24), want, outcome(&r)), &replay);
                                    return;
                                }
                                if let Ok(Ok((DecapStatus::CompletedPkt(b, _), _))) = r {
                                    let _ = d.provision_storage(b);
                                }
                            }
                            rep.count("c07.restarts-other-label-mode");
                        }
                    }
                    _ => rep.count("c07.restart-sender-failed"),
                }
            }
            "sampled" => {
                let mut rng = Rng::derive(cx.seed, fnv(gen.as_bytes()), key);
                let shape = vec![5usize, 5, 5, 5];
                let trains = match make_trains(&mut rng, &shape, slots) {
                    Some(t) => t,
                    None => return,
                };
                let refs: Vec<Vec<String>> = trains.iter().map(|t| alone(t)).collect();
                if refs.iter().any(|r| !r.last().unwrap().starts_with("C(")) {
                    rep.count("c07.train-not-delivered-alone");
                    return;
                }
                let mut left = shape.clone();
                let mut order = Vec::new();
                while order.len() < 20 {
                    let t = rng.below(4);
                    if left[t] > 0 {
                        left[t] -= 1;
                        order.push(t);
                    }
                }
                let stray_pkt: Vec<u8>;
                let stray = if rng.chance(2, 3) {
                    let used: Vec<u8> = trains.iter().map(|t| t.id).collect();
                    let ti = rng.below(4);
                    let pick = rng.below(16);
                    let alias = match alias_id(trains[ti].id, slots, &used, pick) {
                        Some(a) => a,
                        None => return,
                    };
                    stray_pkt = if rng.chance(1, 2) { mk_inter(alias, b"zz") } else { mk_end(alias, b"zz", rng.next() as u32) };
                    Some((rng.below(21), &stray_pkt, "sampled-aliasing", rng.chance(1, 2)))
                } else {
                    None
                };
                if run_merge(&trains, &refs, &order, stray, rep) {
                    rep.nontrivial(mix(key, fnv(&order.iter().map(|x| *x as u8).collect::<Vec<_>>())));
                    rep.count("c07.sampled-ok");
                }
            }
            _ => {}
        }
    }
    fn floors(&self, _cx: &Cx, rep: &mut Report) {
        for k in ["c07.merges", "c07.interleaved", "c07.stray-runs", "c07.restarts", "c07.sampled-ok", "c07.reuse.stray-runs", "c07.scarce-ok", "c07.reuse.bad-end-runs", "c07.restarts-other-label-mode", "c07.reuse.two-label-streams-with-substituted-first-fragment"] {
            if rep.get(k) == 0 {
                rep.floors_missing.push(format!("C07 floor: counter {} is 0", k));
            }
        }
    }
}
