//! Sender-side workloads shared by C06 (well-formedness), C09 (totality / failure atomicity),
//! C11 (progress / partition) and C18 (previews).  The workload is the same; the property
//! selects which oracle is attributed (mask) — observations of the other oracles are still
//! recorded and appear under `other_property_observations`.

use crate::report::Report;
use crate::rng::{fnv, mix, Rng};
use crate::sender::*;
use crate::util::*;
use crate::{Cx, Gen};
use dvb_gse_rust::gse_encap::ContextFrag;
use dvb_gse_rust::label::Label;

pub fn gens(cx: &Cx) -> Vec<Gen> {
    let l = size_lattice().len() as u64;
    vec![
        Gen { name: "lattice", count: l * l, exhaustive: true },
        Gen { name: "fragpos", count: 65 + l, exhaustive: true },
        Gen { name: "ptypes", count: if cx.quick() { 3000 / cx.scale_div.max(1) } else { 65536 }, exhaustive: !cx.quick() },
        Gen { name: "ext", count: cx.n(20_000, 600_000), exhaustive: false },
        Gen { name: "state", count: cx.n(20_000, 1_000_000), exhaustive: false },
        Gen { name: "runs", count: cx.n(600, 20_000), exhaustive: false },
        Gen { name: "bigfrag", count: 21, exhaustive: true },
        Gen { name: "maxreuse", count: 48, exhaustive: true },
        Gen { name: "samectx", count: 64, exhaustive: true },
        Gen { name: "labelcfg", count: 96, exhaustive: true },
        Gen { name: "statefulcrc", count: cx.n(3_000, 200_000), exhaustive: false },
    ]
}

pub const RULE: &str = "lattice: every (PDU size, buffer size) pair of the size lattice L x L (L = 0..16, 25..27, 100, 255..257, 1000, 4080..4100, 8190..8195, 16384, 32767, 32768, 65520..65540, 69999, 70000) x 6 label cases (6-byte, 3-byte, broadcast, explicit re-use, 6-byte primed, 3-byte primed) for the first call, then up to 20 continuation calls with buffers drawn from L, 0..32 and exact-fit sizes; fragpos: encap_frag on every context position 0..=len+2 of PDUs of 0..=64 bytes x every buffer size 0..=40 and {100,4097,4098,70000}, and boundary positions of lattice-sized PDUs x L; ptypes: protocol types (all 65536 in thorough) x labels incl. zero and explicit re-use; ext: seeded extension chains of 0..4 entries incl. illegal combinations, fragmented on; state: seeded configuration + traffic prefix then a random call (atomicity over prior states); runs: whole PDUs driven to completion under constant-7, constant-8 and random >=7 byte schedules; maxreuse: re-use limits 1,2,3,254,255,0 x N+1 or 600 packets with one label (encap and encap_ext), then PDUs at the 16-bit total-length boundary for an empty and a full label; labelcfg: scripted label-memory situations (label sent then re-use disabled / re-enabled with a limit; a run of explicit re-use labels under a limit; a run that exhausts the limit, another label, the first label again) x label kinds x limits 1/2/3/255 x encap / encap_ext, each followed by fitting / fragmenting / failing calls with the same label and with an explicit re-use label, fragmented PDUs carried on to their end; samectx: one hand-built context and buffer length offered for PDUs of 23 different lengths in a row (an answer must not depend on the previous question); statefulcrc: an encapsulator with a CRC calculator that counts its calls and salts its result: after each refused call (every reason the property names) the encapsulator incl. its calculator is unchanged and the next fragmenting call equals that of a twin that never saw the refused call; bigfrag: continuation calls with 4080..=4100 bytes remaining x buffers {4090,4096..4101,5000,8000,65536,70000} at four context positions. Every call is one evaluation; a call is non-trivial when the oracle of this property had something to judge (see per-property note); fingerprint = hash(function, PDU length, buffer length, label case, context position, outcome class).";

fn fp(func: Func, plen: usize, blen: usize, lk: &str, pos: usize, outc: u64) -> u64 {
    mix(mix(mix(func as u64 + 1, plen as u64), mix(blen as u64, fnv(lk.as_bytes()))), mix(pos as u64, outc))
}

fn outcome_class(o: &CallOut) -> u64 {
    match &o.res {
        Err(_) => 0,
        Ok(Err(e)) => 1 + fnv(format!("{:?}", e).as_bytes()) % 97,
        Ok(Ok(_)) => {
            if o.ctx.is_some() {
                200
            } else {
                300
            }
        }
    }
}

/// which outcomes make a call non-trivial for the property in `mask`
fn note(rep: &mut Report, mask: u32, spec: &CallSpec, o: &CallOut) {
    let pos = spec.ctx.map(|c| c.len_pdu_frag() as usize).unwrap_or(0);
    let f = fp(spec.func, spec.pdu.len(), spec.buf_len, label_kind(&spec.label), pos, outcome_class(o));
    let nt = if mask & O_C09 != 0 {
        true
    } else if mask & O_C18 != 0 {
        spec.func != Func::EncapExt && o.res.is_ok()
    } else {
        o.ok()
    };
    if nt {
        rep.nontrivial(f);
    }
}

fn label_case(rng: &mut Rng, case: usize) -> (Label, bool) {
    match case {
        0 => (gen_label(rng, 0), false),
        1 => (gen_label(rng, 2), false),
        2 => (Label::Broadcast, false),
        3 => (Label::ReUse, false),
        4 => (gen_label(rng, 1), true),
        _ => (gen_label(rng, 3), true),
    }
}

fn prime(s: &mut Sender, label: Label, mask: u32, rep: &mut Report, replay: &dyn Fn() -> String) {
    let spec = CallSpec { func: Func::Encap, pdu: b"", frag_id: 0, ptype: 0x0800, label, exts: None, ctx: None, buf_len: 32 };
    let _ = s.call(&spec, mask, rep, replay);
}

/// continuation sizes: lattice / tiny / exact fits
fn cont_size(rng: &mut Rng, lat: &[usize], remaining: usize) -> usize {
    match rng.below(8) {
        0 | 1 => *rng.pick(lat),
        2 => rng.below(33),
        3 => remaining + 7,                     // exact end packet
        4 => (remaining + 7).saturating_sub(1 + rng.below(4)), // payload fits, CRC does not
        5 => remaining + 3,                     // payload exactly, no CRC
        6 => 4097 + rng.below(3),
        _ => 13 + rng.below(300),
    }
}

pub fn run_key(cx: &Cx, mask: u32, gen: &str, key: u64, rep: &mut Report) {
    let replay_s = format!("gen={} key={} seed={} profile={}", gen, key, cx.seed, cx.profile);
    let replay = || replay_s.clone();
    let mut rng = Rng::derive(cx.seed, fnv(gen.as_bytes()), key);
    let lat = size_lattice();
    match gen {
        "lattice" => {
            let l = lat.len() as u64;
            let plen = lat[(key / l) as usize];
            let blen = lat[(key % l) as usize];
            let pdu = gen_pdu(&mut rng, plen, (key % 5) as usize);
            for case in 0..6 {
                if crate::expired() {
                    return;
                }
                let mut s = Sender::new(0x11 + case as u8);
                let (label, primed) = label_case(&mut rng, case);
                if primed {
                    prime(&mut s, label, mask, rep, &replay);
                }
                let frag_id = rng.byte();
                let ptype = gen_user_ptype(&mut rng);
                let spec = CallSpec { func: Func::Encap, pdu: &pdu, frag_id, ptype, label, exts: None, ctx: None, buf_len: blen };
                let o = s.call(&spec, mask, rep, &replay);
                note(rep, mask, &spec, &o);
                if key == 7 * l + 30 && case == 0 {
                    rep.sample(|| format!("lattice: encap(pdu {}B, buffer {}B, label {}) -> {}", plen, blen, label_str(&label), enc_res_str(&o.res)));
                }
                let mut ctx = match o.ctx {
                    Some(c) => c,
                    None => continue,
                };
                for _ in 0..20 {
                    let remaining = plen.saturating_sub(ctx.len_pdu_frag() as usize);
                    let b = cont_size(&mut rng, &lat, remaining);
                    let spec = CallSpec { func: Func::Frag, pdu: &pdu, frag_id, ptype, label, exts: None, ctx: Some(ctx), buf_len: b };
                    let o = s.call(&spec, mask, rep, &replay);
                    note(rep, mask, &spec, &o);
                    if o.completed() {
                        rep.count("lattice.trains-completed");
                        break;
                    }
                    if let Some(c) = o.ctx {
                        ctx = c;
                    }
                }
            }
        }
        "fragpos" => {
            let mut s = Sender::new(0x33);
            if key < 65 {
                let plen = key as usize;
                let pdu = gen_pdu(&mut rng, plen, 0);
                let mut bufs: Vec<usize> = (0..=40).collect();
                bufs.extend([100, 4097, 4098, 70000]);
                for pos in 0..=plen + 2 {
                    if crate::expired() {
                        return;
                    }
                    for b in &bufs {
                        let ctx = ContextFrag::new(key as u8 ^ 0xA5, rng.next() as u32, pos as u16);
                        let spec = CallSpec { func: Func::Frag, pdu: &pdu, frag_id: 0, ptype: 0, label: Label::ReUse, exts: None, ctx: Some(ctx), buf_len: *b };
                        let o = s.call(&spec, mask, rep, &replay);
                        note(rep, mask, &spec, &o);
                        if plen == 10 && pos == 10 && *b == 5 {
                            rep.sample(|| format!("fragpos: encap_frag(pdu 10B, context at the end (pos 10), buffer 5B) -> {}", enc_res_str(&o.res)));
                        }
                    }
                }
            } else {
                let plen = lat[(key - 65) as usize];
                let pdu = gen_pdu(&mut rng, plen, 4);
                let mut poss: Vec<usize> = vec![0, 1, plen / 2, plen.saturating_sub(4), plen.saturating_sub(1), plen, plen + 1, 65535];
                poss.retain(|p| *p <= 65535);
                poss.dedup();
                for pos in poss {
                    for b in &lat {
                        let ctx = ContextFrag::new(rng.byte(), rng.next() as u32, pos as u16);
                        let spec = CallSpec { func: Func::Frag, pdu: &pdu, frag_id: 0, ptype: 0, label: Label::ReUse, exts: None, ctx: Some(ctx), buf_len: *b };
                        let o = s.call(&spec, mask, rep, &replay);
                        note(rep, mask, &spec, &o);
                    }
                }
            }
        }
        "ptypes" => {
            let ptype: u16 = if cx.quick() {
                let pl = ptype_lattice();
                if (key as usize) < pl.len() {
                    pl[key as usize]
                } else if key < 300 {
                    // dense around the boundaries
                    [0x00F0u16, 0x05F0, 0x0100 - 8, 0x0600 - 8][(key % 4) as usize] + (key / 4 % 32) as u16
                } else {
                    rng.next() as u16
                }
            } else {
                key as u16
            };
            let labels = [gen_label(&mut rng, 0), Label::SixBytesLabel([0; 6]), gen_label(&mut rng, 2), Label::Broadcast, Label::ReUse];
            let pdu_s = gen_pdu(&mut rng, 26, 0);
            let pdu_l = if key % 64 == 0 { gen_pdu(&mut rng, 5000, 0) } else { Vec::new() };
            for label in labels {
                for (pdu, b) in [(&pdu_s, 100usize), (&pdu_s, 10), (&pdu_s, 20), (&pdu_l, 4097)] {
                    if pdu.is_empty() {
                        continue;
                    }
                    let mut s = Sender::new(0x44);
                    let spec = CallSpec { func: Func::Encap, pdu, frag_id: 3, ptype, label, exts: None, ctx: None, buf_len: b };
                    let o = s.call(&spec, mask, rep, &replay);
                    note(rep, mask, &spec, &o);
                    rep.count(if o.ok() { "ptypes.ok" } else { "ptypes.err" });
                    if ptype == 0x0081 && b == 100 && label == Label::Broadcast {
                        rep.sample(|| format!("ptypes: encap(type 0x0081, bcast, pdu 26B, buffer 100B) -> {}", enc_res_str(&o.res)));
                    }
                }
            }
        }
        "ext" => {
            let n = rng.below(5);
            let final_ext = n > 0 && rng.chance(1, 3);
            let chain = gen_chain(&mut rng, n, final_ext);
            let illegal = rng.below(10);
            let ptype = if final_ext {
                let id = chain.entries.last().unwrap().id;
                if illegal == 0 {
                    id ^ 1 // final mandatory extension but a different protocol type
                } else {
                    id
                }
            } else {
                match illegal {
                    0 => rng.below(0x100) as u16,          // type below 0x100 without final mandatory extension
                    1 => rng.range(0x100, 0x5FF) as u16,   // reserved range
                    _ => gen_user_ptype(&mut rng),
                }
            };
            let plen = match rng.below(6) {
                0 => 0,
                1 => rng.range(4000, 4200),
                2 => rng.range(1, 8),
                // around the 16-bit total-length limit (with and without a final mandatory extension)
                3 if key % 8 == 3 => rng.range(65510, 65540),
                _ => rng.range(1, 300),
            };
            let pdu = gen_pdu(&mut rng, plen, 0);
            let lc = rng.below(6);
            let (label, primed) = label_case(&mut rng, lc);
            let mut s = Sender::new(0x55);
            if primed {
                prime(&mut s, label, mask, rep, &replay);
            }
            let blen = match rng.below(5) {
                0 => rng.below(60),
                1 => plen + rng.below(64),
                2 => 4097 + rng.below(4),
                _ => rng.below(plen + 80),
            };
            let frag_id = rng.byte();
            let spec = CallSpec { func: Func::EncapExt, pdu: &pdu, frag_id, ptype, label, exts: Some(&chain), ctx: None, buf_len: blen };
            let o = s.call(&spec, mask, rep, &replay);
            if matches!(o.res, Err(ref m) if m.starts_with("harness:")) {
                rep.count("ext.unconstructible");
                return;
            }
            note(rep, mask, &spec, &o);
            rep.count(if o.ok() { "ext.ok" } else { "ext.err" });
            if key < 2 {
                rep.sample(|| format!("ext: encap_ext(pdu {}B, buffer {}B, type {:#06x}, chain {:?} final={}) -> {}", plen, blen, ptype, chain.entries.iter().map(|e| format!("{:#06x}", e.id)).collect::<Vec<_>>(), final_ext, enc_res_str(&o.res)));
            }
            if let Some(mut ctx) = o.ctx {
                for _ in 0..8 {
                    let remaining = plen.saturating_sub(ctx.len_pdu_frag() as usize);
                    let b = cont_size(&mut rng, &lat, remaining);
                    let spec = CallSpec { func: Func::Frag, pdu: &pdu, frag_id, ptype, label, exts: None, ctx: Some(ctx), buf_len: b };
                    let o = s.call(&spec, mask, rep, &replay);
                    note(rep, mask, &spec, &o);
                    if o.completed() {
                        break;
                    }
                    if let Some(c) = o.ctx {
                        ctx = c;
                    }
                }
            }
        }
        "state" => {
            // random configuration + traffic prefix, then random calls (mostly failing ones)
            let mut s = Sender::new(0x66);
            let alphabet = [gen_label(&mut rng, 0), gen_label(&mut rng, 0), gen_label(&mut rng, 2), gen_label(&mut rng, 3), Label::Broadcast, Label::ReUse, Label::SixBytesLabel([0; 6])];
            let steps = 2 + rng.below(10);
            for _ in 0..steps {
                match rng.below(10) {
                    0 => s.enc.reset_last_label(),
                    1 => s.enc.disable_re_use_label(),
                    2 => s.enc.enable_re_use_label(),
                    3 => {
                        let n = [0u8, 1, 2, 3, 255][rng.below(5)];
                        s.enc.enable_re_use_label_with_max_consecutive(n)
                    }
                    _ => {
                        let label = *rng.pick(&alphabet);
                        let plen = match rng.below(5) {
                            0 => rng.range(65520, 65540),
                            1 => rng.range(4080, 4100),
                            _ => rng.below(80),
                        };
                        let pdu = gen_pdu(&mut rng, plen, 4);
                        let blen = match rng.below(6) {
                            0 => rng.below(16),
                            1 => plen + rng.below(20),
                            2 => 4097 + rng.below(3),
                            3 => 70000,
                            _ => rng.below(plen + 30),
                        };
                        let ptype = match rng.below(8) {
                            0 => rng.range(0x100, 0x5FF) as u16,
                            1 => rng.below(0x100) as u16,
                            _ => gen_user_ptype(&mut rng),
                        };
                        let use_ext = rng.chance(1, 5);
                        let cn = 1 + rng.below(2);
                        let chain = gen_chain(&mut rng, cn, false);
                        let spec = if use_ext {
                            CallSpec { func: Func::EncapExt, pdu: &pdu, frag_id: 1, ptype, label, exts: Some(&chain), ctx: None, buf_len: blen }
                        } else {
                            CallSpec { func: Func::Encap, pdu: &pdu, frag_id: 1, ptype, label, exts: None, ctx: None, buf_len: blen }
                        };
                        let o = s.call(&spec, mask, rep, &replay);
                        note(rep, mask, &spec, &o);
                        rep.count(if o.ok() { "state.ok" } else { "state.err" });
                    }
                }
            }
        }
        "maxreuse" => {
            // re-use limit N: N+1 packets with one label (the last one is the N-th re-use), then calls at the
            // 16-bit total-length boundary with that label (it must now be written in full, so the PDU that
            // would fit with an empty label does not), and long runs through the 8-bit counter boundary
            let n_max = [1u8, 2, 3, 254, 255, 0][(key % 6) as usize];
            let label = gen_label(&mut rng, [0usize, 2][((key / 6) % 2) as usize]);
            let ll = label_bytes(&label).len();
            let use_ext = (key / 12) % 2 == 1;
            let long_run = (key / 24) % 2 == 1;
            let mut s = Sender::new(0x99);
            s.enc.enable_re_use_label_with_max_consecutive(n_max);
            let chain = gen_chain(&mut rng, 1, false);
            let small = gen_pdu(&mut rng, 10, 0);
            let runs = if long_run { 600 } else { n_max as usize + 1 };
            for _ in 0..runs.min(700) {
                let spec = CallSpec { func: if use_ext { Func::EncapExt } else { Func::Encap }, pdu: &small, frag_id: 1, ptype: 0x0800, label, exts: if use_ext { Some(&chain) } else { None }, ctx: None, buf_len: 64 };
                let o = s.call(&spec, mask, rep, &replay);
                note(rep, mask, &spec, &o);
            }
            // now at some point of the re-use cycle: PDUs around the limit for an empty and for a full label
            for plen in [65533 - ll - 1, 65533 - ll, 65533 - ll + 1, 65533 - 1, 65533, 65534] {
                let pdu = gen_pdu(&mut rng, plen, 4);
                let mut s2 = Sender::new(0x9A);
                s2.enc = s.enc.clone();
                let spec = CallSpec { func: if use_ext { Func::EncapExt } else { Func::Encap }, pdu: &pdu, frag_id: 2, ptype: 0x0800, label, exts: if use_ext { Some(&chain) } else { None }, ctx: None, buf_len: 4097 };
                let o = s2.call(&spec, mask, rep, &replay);
                note(rep, mask, &spec, &o);
                rep.count(if o.ok() { "maxreuse.boundary-ok" } else { "maxreuse.boundary-err" });
            }
        }
        "bigfrag" => {
            // continuation calls with about one maximum packet left and buffers around / above 4097 bytes
            let r = 4080 + key as usize;
            let mut s = Sender::new(0x88);
            for (plen, pos) in [(r, 0usize), (r + 10, 10), (12000, 12000 - r), (65535, 65535 - r)] {
                let pdu = gen_pdu(&mut rng, plen, 4);
                for b in [4090usize, 4096, 4097, 4098, 4099, 4100, 4101, 5000, 8000, 65536, 70000] {
                    let ctx = ContextFrag::new(rng.byte(), rng.next() as u32, pos as u16);
                    let spec = CallSpec { func: Func::Frag, pdu: &pdu, frag_id: 0, ptype: 0, label: Label::ReUse, exts: None, ctx: Some(ctx), buf_len: b };
                    let o = s.call(&spec, mask, rep, &replay);
                    note(rep, mask, &spec, &o);
                }
            }
        }
        "runs" => {
            // whole PDUs driven to completion with buffers >= 7 (C11 bounded progress)
            let plen = match key % 4 {
                0 => lat[rng.below(lat.len())].min(65533 - 6),
                1 => rng.below(200),
                2 => rng.range(4000, 9000),
                _ => rng.below(3000),
            };
            let pdu = gen_pdu(&mut rng, plen, (key % 5) as usize);
            let lc = rng.below(6);
            let (label, primed) = label_case(&mut rng, lc);
            let mut s = Sender::new(0x77);
            if primed {
                prime(&mut s, label, mask, rep, &replay);
            }
            let frag_id = rng.byte();
            let first = 13 + rng.below(60);
            let spec = CallSpec { func: Func::Encap, pdu: &pdu, frag_id, ptype: 0x0800, label, exts: None, ctx: None, buf_len: first };
            let o = s.call(&spec, mask, rep, &replay);
            note(rep, mask, &spec, &o);
            let mut ctx = match o.ctx {
                Some(c) => c,
                None => return,
            };
            let mode = rng.below(4);
            let remaining0 = plen.saturating_sub(ctx.len_pdu_frag() as usize);
            let mut calls = 0usize;
            loop {
                if calls % 64 == 0 && crate::expired() {
                    return;
                }
                let b = match mode {
                    0 => 7,
                    1 => 8,
                    2 => 7 + rng.below(30),
                    _ => 7 + rng.below(5000),
                };
                let spec = CallSpec { func: Func::Frag, pdu: &pdu, frag_id, ptype: 0x0800, label, exts: None, ctx: Some(ctx), buf_len: b };
                let o = s.call(&spec, mask, rep, &replay);
                calls += 1;
                if calls % 64 == 1 {
                    note(rep, mask, &spec, &o);
                }
                if !o.ok() {
                    if mask & O_C11 != 0 && o.res.is_ok() {
                        rep.violation("C11", format!("buffer-of-7-or-more-rejected:{}", size_class(plen, b)), || format!("encap_frag rejected a {}-byte buffer with {} bytes remaining: {}", b, plen - ctx.len_pdu_frag() as usize, enc_res_str(&o.res)), &replay);
                    }
                    break;
                }
                if o.completed() {
                    rep.count("runs.completed");
                    break;
                }
                ctx = o.ctx.unwrap();
                if calls > remaining0 + 1 {
                    if mask & O_C11 != 0 {
                        rep.violation("C11", "bounded-progress".into(), || format!("PDU of {} bytes not finished after {} continuation calls with buffers >= 7 ({} bytes remained after the first fragment)", plen, calls, remaining0), &replay);
                    }
                    break;
                }
            }
            rep.count_n("runs.calls", calls as u64);
            if key < 2 {
                rep.sample(|| format!("runs: pdu {}B, first buffer {}B, schedule mode {} -> completed after {} continuation calls (bound {})", plen, first, mode, calls, remaining0 + 1));
            }
        }
        "labelcfg" => {
            // scripted label-memory situations, each followed by calls that fit / fragment / fail, all monitored:
            //  0: L sent with re-use on, re-use disabled, L again        1: L sent, re-use re-enabled with a limit, L again
            //  2: limit N, L sent, then N+2 calls with an EXPLICIT re-use label   3: limit N, L sent N+2 times, other label, L
            let script = key % 4;
            let label = gen_label(&mut rng, [0usize, 2, 3][((key / 4) % 3) as usize]);
            let other = gen_label(&mut rng, 1);
            let n_max = [1u8, 2, 3, 255][((key / 12) % 4) as usize];
            let use_ext = (key / 48) % 2 == 1;
            let chain = gen_chain(&mut rng, 1, false);
            let mut s = Sender::new(0x77);
            let small = gen_pdu(&mut rng, 12, 0);
            let big = gen_pdu(&mut rng, 300, 1);
            let mut send = |s: &mut Sender, l: Label, pdu: &[u8], bl: usize, rep: &mut Report| {
                let spec = CallSpec { func: if use_ext { Func::EncapExt } else { Func::Encap }, pdu, frag_id: 3, ptype: 0x0800, label: l, exts: if use_ext { Some(&chain) } else { None }, ctx: None, buf_len: bl };
                let o = s.call(&spec, mask, rep, &replay);
                note(rep, mask, &spec, &o);
                // a fragmented PDU is carried on to its end in this label-memory situation (every continuation judged)
                let mut ctx = o.ctx;
                let mut calls = 0;
                while let Some(c) = ctx {
                    calls += 1;
                    if calls > 60 {
                        break;
                    }
                    let spec = CallSpec { func: Func::Frag, pdu, frag_id: 3, ptype: 0x0800, label: l, exts: None, ctx: Some(c), buf_len: [40usize, 23, 64, 4097][calls % 4] };
                    let o = s.call(&spec, mask, rep, &replay);
                    note(rep, mask, &spec, &o);
                    if !o.ok() {
                        break;
                    }
                    ctx = o.ctx;
                }
            };
            match script {
                0 => {
                    send(&mut s, label, &small, 64, rep);
                    s.enc.disable_re_use_label();
                }
                1 => {
                    send(&mut s, label, &small, 64, rep);
                    s.enc.enable_re_use_label_with_max_consecutive(n_max);
                }
                2 => {
                    s.enc.enable_re_use_label_with_max_consecutive(n_max);
                    send(&mut s, label, &small, 64, rep);
                    for _ in 0..(n_max as usize).min(6) + 2 {
                        send(&mut s, Label::ReUse, &small, 64, rep);
                    }
                }
                _ => {
                    s.enc.enable_re_use_label_with_max_consecutive(n_max);
                    for _ in 0..(n_max as usize).min(6) + 2 {
                        send(&mut s, label, &small, 64, rep);
                    }
                    send(&mut s, other, &small, 64, rep);
                }
            }
            // the calls under test: same label, fitting / fragmenting / too small / explicit re-use
            for (pdu, bl) in [(&small, 64usize), (&big, 40), (&small, 3), (&big, 4097)] {
                let mut s2 = Sender::new(0x78);
                s2.enc = s.enc.clone();
                send(&mut s2, label, pdu, bl, rep);
                send(&mut s2, label, pdu, bl, rep);
                send(&mut s2, Label::ReUse, pdu, bl, rep);
            }
        }
        "samectx" => {
            // the SAME hand-built context and buffer length offered for PDUs of different lengths, one call after
            // the other on one thread: an answer must depend on the PDU it is asked about (previews included)
            let pos = [0usize, 1, 5, 40, 100, 4000, 4090, 65000][(key % 8) as usize];
            let bl = [7usize, 8, 13, 20, 100, 4096, 4097, 70000][(key / 8) as usize];
            let s0 = &mut Sender::new(0x33);
            let ctx = ContextFrag::new(7, 0x1122_3344, pos as u16);
            let lens: Vec<usize> = [0usize, 1, 2, 3, 4, 5, 6, 7, 8, 20, 90, 4000, 4086, 4090, 4091, 4092, 4093, 4094, 4096, 65535, 65536].iter().map(|d| pos + d).chain([pos.saturating_sub(1), pos / 2]).collect();
            let big = gen_pdu(&mut rng, 131072, 1);
            for round in 0..2 {
                for &pl in &lens {
                    let pl = if round == 0 { pl } else { lens[(pl * 7 + 3) % lens.len()] };
                    let pdu = &big[..pl.min(big.len())];
                    let spec = CallSpec { func: Func::Frag, pdu, frag_id: 7, ptype: 0x0800, label: Label::Broadcast, exts: None, ctx: Some(ctx), buf_len: bl };
                    let o = s0.call(&spec, mask, rep, &replay);
                    note(rep, mask, &spec, &o);
                }
            }
        }
        "statefulcrc" => {
            // a CRC calculator with state (it counts its calls and salts its result with the count): after a call
            // that returns Err the encapsulator, calculator included, must be what it was, and the next packet must
            // be what a twin that never saw the failed call produces
            use crate::mon::guard;
            use dvb_gse_rust::gse_encap::{EncapMetadata, Encapsulator};
            use dvb_gse_rust::header_extension::Extension;
            #[derive(Clone, Debug, PartialEq)]
            struct CountingCrc {
                calls: std::cell::Cell<u32>,
            }
            impl dvb_gse_rust::crc::CrcCalculator for CountingCrc {
                fn calculate_crc32(&self, pdu: &[u8], protocol_type: u16, total_length: u16, label: &[u8]) -> u32 {
                    let n = self.calls.get();
                    self.calls.set(n + 1);
                    dvb_gse_rust::crc::DefaultCrc {}.calculate_crc32(pdu, protocol_type, total_length, label) ^ n.wrapping_mul(0x9E37_79B9)
                }
            }
            let mut enc = Encapsulator::new(CountingCrc { calls: std::cell::Cell::new(0) });
            let big = gen_pdu(&mut rng, 70000, 0);
            let n = 3 + rng.below(10);
            for step in 0..n {
                let lkind = [0usize, 2, 4][rng.below(3)];
                let label = gen_label(&mut rng, lkind);
                // a call that must fail, for each reason the property names plus "buffer too small"
                let (plen, bl, ptype, lab, ext): (usize, usize, u16, Label, bool) = match rng.below(6) {
                    0 => (rng.range(65530, 70000), rng.range(13, 5000), 0x0800, label, rng.chance(1, 2)),
                    1 => (rng.range(0, 5000), rng.below(8), 0x0800, label, rng.chance(1, 2)),
                    2 => (rng.range(0, 5000), rng.range(13, 5000), rng.range(0x100, 0x5FF) as u16, label, rng.chance(1, 2)),
                    3 => (rng.range(0, 5000), rng.range(13, 5000), 0x0800, Label::SixBytesLabel([0; 6]), rng.chance(1, 2)),
                    4 => (rng.range(4100, 9000), 7 + rng.below(6), 0x0800, label, false),
                    _ => (rng.range(65530, 70000), rng.below(12), 0x0800, label, false),
                };
                let snapshot = enc.clone();
                let mut b = vec![0u8; bl];
                rep.eval();
                let r = guard(|| {
                    if ext {
                        enc.encap_ext(&big[..plen], 3, EncapMetadata::new(ptype, lab), &mut b, vec![Extension::new(0x0155, &[]).unwrap()])
                    } else {
                        enc.encap(&big[..plen], 3, EncapMetadata::new(ptype, lab), &mut b)
                    }
                });
                let cls = format!("{}:{}", if ext { "encap_ext" } else { "encap" }, label_kind(&lab));
                match r {
                    Err(p) => {
                        if mask & O_C09 != 0 {
                            rep.violation("C09", format!("panic:{}:stateful-crc:{}", crate::mon::panic_class(&p), cls), || format!("call with a stateful CRC calculator panicked: {}", p), &replay);
                        }
                        return;
                    }
                    Ok(Err(e)) => {
                        rep.count("statefulcrc.err");
                        if enc != snapshot && mask & O_C09 != 0 {
                            rep.violation("C09", format!("err-state-changed:stateful-crc:{}", cls), || format!("{}(pdu {}B, type {:#06x}, label {}, buffer {}B) returned {:?} but the encapsulator (with its CRC calculator) changed: before {:?}, after {:?}", if ext { "encap_ext" } else { "encap" }, plen, ptype, label_str(&lab), bl, e, snapshot, enc), &replay);
                            return;
                        }
                        rep.nontrivial(mix(0x5CF, mix(key, step as u64)));
                    }
                    Ok(Ok(_)) => {
                        // (e.g. a tiny PDU with a broadcast label fits 7 bytes): not a refused call, nothing to compare
                        rep.count("statefulcrc.call-accepted");
                        continue;
                    }
                }
                // a fragmenting call in between (uses the calculator), compared with a twin built from the snapshot
                if rng.chance(1, 2) {
                    let pl = rng.range(100, 3000);
                    let bl2 = 13 + rng.below(60);
                    let mut twin = snapshot.clone();
                    let mut b1 = vec![0u8; bl2];
                    let mut b2 = vec![0u8; bl2];
                    let l2 = gen_label(&mut rng, 2);
                    rep.eval();
                    let r1 = guard(|| enc.encap(&big[..pl], 4, EncapMetadata::new(0x0800, l2), &mut b1));
                    let r2 = guard(|| twin.encap(&big[..pl], 4, EncapMetadata::new(0x0800, l2), &mut b2));
                    let same = match (&r1, &r2) {
                        (Ok(Ok(a)), Ok(Ok(b))) => format!("{:?}", a) == format!("{:?}", b) && b1 == b2,
                        (Ok(Err(a)), Ok(Err(b))) => format!("{:?}", a) == format!("{:?}", b),
                        _ => false,
                    };
                    if !same && mask & O_C09 != 0 {
                        rep.violation("C09", format!("next-packet-differs-after-failed-call:stateful-crc:{}", cls), || format!("after a refused {} call, encap(pdu {}B, buffer {}B) = {:?}, a twin that never saw the refused call = {:?}", cls, pl, bl2, r1.as_ref().map(|x| x.as_ref().map(|s| format!("{:?}", s))), r2.as_ref().map(|x| x.as_ref().map(|s| format!("{:?}", s)))), &replay);
                        return;
                    }
                }
            }
        }
        _ => {}
    }
}
