//! C10 — see frames.rs (shared frame traffic workload and oracles).
use super::frames;
use crate::report::Report;
use crate::{Cx, Gen, Property};

pub struct Prop;
pub static P: Prop = Prop;

impl Property for Prop {
    fn id(&self) -> &'static str {
        "C10"
    }
    fn rule(&self) -> &'static str {
        frames::RULE
    }
    fn gens(&self, cx: &Cx) -> Vec<Gen> {
        frames::gens(cx)
    }
    fn run_key(&self, cx: &Cx, gen: &str, key: u64, rep: &mut Report) {
        frames::run_key(cx, frames::M_C10, gen, key, rep)
    }
    fn floors(&self, _cx: &Cx, rep: &mut Report) {
        for k in "frames.padding-ok,frames.accepted,frames.corrupted.bad-crc,frames.corrupted.other-frag-id,frames.rejected.ErrorCrc,frames.rejected.ErrorMemory,tails.sets".split(',') {
            if rep.get(k) == 0 {
                rep.floors_missing.push(format!("C10 floor: counter {} is 0", k));
            }
        }
    }
}
