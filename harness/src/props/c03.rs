//! C03 — reassembly delivers only length- and CRC-verified PDUs (no silent corruption).
//! Fault enumeration over fragment trains built by the real encapsulator; oracle 1 = online
//! specification on the bytes actually received (rxspec.rs); oracle 2 = end-to-end for the
//! fault classes the property names.

use crate::hostile::{mk_end, mk_first, mk_inter};
use crate::refcrc::FastRef;
use crate::report::Report;
use crate::rng::{fnv, hex_short, mix, Rng};
use crate::rxspec::{RxSpec, RX_C03};
use crate::train::build_train;
use crate::util::*;
use crate::wire::{self, Kind, MandTable};
use crate::{Cx, Gen, Property};
use dvb_gse_rust::crc::DefaultCrc;
use dvb_gse_rust::gse_decap::DecapStatus;
use dvb_gse_rust::gse_encap::{EncapMetadata, Encapsulator};
use dvb_gse_rust::label::Label;

pub struct Prop;
pub static P: Prop = Prop;

struct TrainT {
    pdu: Vec<u8>,
    label: Label,
    ptype: u16,
    id: u8,
    pkts: Vec<Vec<u8>>,
    prime: Option<Vec<u8>>,
    /// per packet: the runs of CRC-protected bytes (total length, protocol type, label, payload, trailer); each
    /// run is contiguous on the wire AND in the CRC codeword, so a burst inside one run is a burst of the
    /// same length in the codeword.  Extension headers are not CRC-protected.
    protected: Vec<Vec<std::ops::Range<usize>>>,
    payload_len: Vec<usize>,
}

fn build(rng: &mut Rng, plen: usize, npk: usize, rep: &mut Report) -> Option<TrainT> {
    let lk = rng.below(7);
    let (label, primed) = match lk {
        0 => (gen_label(rng, 0), false),
        1 => (gen_label(rng, 2), false),
        2 => (Label::Broadcast, false),
        3 => (gen_label(rng, 1), true),
        4 => (gen_label(rng, 3), true),
        5 => (gen_label(rng, 3), false),
        _ => (gen_label(rng, 0), false),
    };
    let pdu = rng.bytes(plen);
    let ptype = gen_user_ptype(rng);
    let id = rng.byte();
    let mut enc = Encapsulator::new(DefaultCrc {});
    let meta = EncapMetadata::new(ptype, label);
    let mut prime = None;
    if primed {
        let mut b = vec![0u8; 32];
        match enc_guard(&mut enc, b"", 0, meta, &mut b) {
            Ok(Ok(s)) => {
                let (n, _) = status_parts(&s);
                b.truncate(n);
                prime = Some(b);
            }
            _ => return None,
        }
    }
    let ll = if primed { 0 } else { label_bytes(&label).len() };
    let per = std::cmp::max(1, plen / npk);
    // one train in four carries optional extension headers (the delivered metadata must keep them)
    let exts: Option<Vec<dvb_gse_rust::header_extension::Extension>> = if rng.chance(1, 4) {
        let d = rng.bytes(2);
        let mut v = vec![dvb_gse_rust::header_extension::Extension::new(0x0200 | rng.byte() as u16, &d).ok()?];
        if rng.chance(1, 2) {
            v.push(dvb_gse_rust::header_extension::Extension::new(0x0100 | rng.byte() as u16, &[]).ok()?);
        }
        Some(v)
    } else {
        None
    };
    let ext_len: usize = exts.as_ref().map(|v| v.iter().map(|e| e.len()).sum()).unwrap_or(0);
    let first_buf = 7 + ll + ext_len + per;
    // one train in four ends with a fragment that carries ONLY the CRC: the last intermediate fragment gets a
    // buffer in which the rest of the PDU fits but the trailer does not
    let crc_only_end = npk >= 3 && rng.chance(1, 4);
    let rest_after = plen.saturating_sub(per * (npk - 1));
    let t = build_train(&mut enc, &pdu, id, meta, exts, |k| if k == 0 { first_buf } else if crc_only_end && k + 1 == npk { 3 + rest_after } else if k + 1 < npk { 3 + per } else { 4097 }, 16).ok()?;
    if !t.complete || t.pkts.len() < 2 {
        rep.count("c03.train-not-fragmented");
        return None;
    }
    let table = MandTable::none();
    let mut protected = Vec::new();
    let mut payload_len = Vec::new();
    for p in &t.pkts {
        let pp = wire::parse(p, &table).ok()?;
        payload_len.push(pp.payload.len());
        protected.push(match pp.kind {
            Kind::First if pp.exts.is_empty() => vec![3..p.len()],
            Kind::First => {
                // frag id | total length | first extension id | label | extension data .. | protocol type | payload
                let ll = pp.label.len();
                let pt = pp.payload.start - 2..pp.payload.start;
                let mut v = vec![3..5];
                if ll > 0 {
                    v.push(7..7 + ll);
                }
                v.push(pt);
                if !pp.payload.is_empty() {
                    v.push(pp.payload.clone());
                }
                v
            }
            Kind::Inter => vec![3..p.len()],
            Kind::End => vec![3..p.len()],
            Kind::Complete => vec![2..p.len()],
        });
    }
    Some(TrainT { pdu, label, ptype, id, pkts: t.pkts, prime, protected, payload_len })
}

#[derive(Clone, Copy, PartialEq, Eq, Debug)]
enum Expect {
    /// only oracle 1 applies (header faults, field replacement, swaps, re-sealing)
    SpecOnly,
    /// delivered => equals the PDU sent
    EqualIfDelivered,
    /// any delivery of this PDU is a violation
    NoDelivery,
}

/// feed a (faulted) train to a fresh receiver; evaluate both oracles
fn feed(t: &TrainT, pkts: &[Vec<u8>], storage: usize, expect: Expect, class: &str, rep: &mut Report, replay: &dyn Fn() -> String) -> bool {
    let table = MandTable::none();
    let mut d = plain_dec(2, storage, 2, storage, table.clone());
    let mut rx = RxSpec::new(table);
    if let Some(p) = &t.prime {
        let r = dec_guard(&mut d, p);
        rx.observe(p, &r, 0, class, rep, replay);
        if let Ok(Ok((DecapStatus::CompletedPkt(b, _), _))) = r {
            let _ = d.provision_storage(b);
        }
    }
    // every other faulted transfer is given to a receiver that has just delivered the INTACT train (same
    // lengths, same trailer): whatever the receiver remembers of a verified PDU must not vouch for the next one
    if class != "intact" && fnv(&pkts.concat()) % 2 == 1 {
        for p in &t.pkts {
            rep.eval();
            let r = dec_guard(&mut d, p);
            if r.is_err() {
                rep.count("c03.receiver-panic");
                return false;
            }
            rx.observe(p, &r, RX_C03, "intact-before-fault", rep, replay);
            if let Ok(Ok((DecapStatus::CompletedPkt(b, _), _))) = r {
                let _ = d.provision_storage(b);
                rep.count("c03.intact-delivered-before-fault");
            }
        }
        if let Some(p) = &t.prime {
            // the faulted copy starts from the same label memory as the intact one did
            let r = dec_guard(&mut d, p);
            rx.observe(p, &r, 0, class, rep, replay);
            if let Ok(Ok((DecapStatus::CompletedPkt(b, _), _))) = r {
                let _ = d.provision_storage(b);
            }
        }
    }
    let mut delivered = false;
    for p in pkts {
        rep.eval();
        let r = dec_guard(&mut d, p);
        if r.is_err() {
            rep.count("c03.receiver-panic");
            return false;
        }
        rx.observe(p, &r, RX_C03, class, rep, replay);
        if let Ok(Ok((DecapStatus::CompletedPkt(b, m), _))) = &r {
            // deliveries of complete packets cannot occur here (trains contain none)
            delivered = true;
            let same = m.pdu_len() == t.pdu.len() && b[..t.pdu.len().min(b.len())] == t.pdu[..] && m.protocol_type() == t.ptype && m.label() == t.label;
            match expect {
                Expect::NoDelivery => rep.violation("C03", format!("delivered-despite-fault:{}", class), || format!("fault class {}: a PDU ({} bytes, equal to the original: {}) was delivered from packets {:?}", class, m.pdu_len(), same, pkts.iter().map(|p| hex_short(p, 20)).collect::<Vec<_>>()), replay),
                Expect::EqualIfDelivered if !same => rep.violation("C03", format!("delivered-pdu-differs-from-sent:{}", class), || format!("fault class {}: delivered {} bytes / type {:#06x} / label {} but {} bytes / {:#06x} / {} were sent; packets {:?}", class, m.pdu_len(), m.protocol_type(), label_str(&m.label()), t.pdu.len(), t.ptype, label_str(&t.label), pkts.iter().map(|p| hex_short(p, 20)).collect::<Vec<_>>()), replay),
                _ => {}
            }
        }
        if let Ok(Ok((DecapStatus::CompletedPkt(b, _), _))) = r {
            let _ = d.provision_storage(b);
        }
    }
    rep.count(if delivered { "c03.delivered" } else { "c03.rejected" });
    delivered
}

impl Property for Prop {
    fn id(&self) -> &'static str {
        "C03"
    }
    fn rule(&self) -> &'static str {
        "bits: for seeded fragment trains (2..6 packets, PDU 1..200 bytes, all label kinds incl. re-use substituted first fragments) built by the real encapsulator: EVERY single bit flip of every packet, EVERY burst (every start bit x length 2..32, all-ones pattern; thorough adds two random interior patterns), truncation at EVERY byte, drop / duplicate / adjacent swap of EVERY fragment, the frag-id field replaced by all 256 values, the CRC trailer replaced by {0, ~crc, crc+1, crc-1, byte rotations, random values}; totlen: the total-length field replaced by all 65536 values; double: seeded pairs of the above faults; reseal: structurally faulted trains whose trailer / total length are recomputed for a wrong interpretation (payload without the dropped fragment, with the duplicate, 16-bit wrapped overlay with >= 64 KiB storage, header of another train, label present but sealed as if re-used, first fragment repeated after an intermediate fragment, an early end fragment followed by more fragments, zero-length PDUs with a bad seal, a valid train interrupted by a first fragment of its own id that the receiver must refuse, a first fragment with an extension header sealed for a gap of stale storage bytes before / after its payload, a train sealed for the label mode (re-use / written) of a train abandoned on the same fragment id just before; a train whose total length is below protocol type + label sealed for exactly its fields; refused restarts also with the free list filled up so that the abandoned buffer cannot be given back); every other faulted transfer of the bits / totlen / double generators is fed to a receiver that has just delivered the intact train, and trains of different PDUs spliced on one fragment id; state: re-use trains announcing a total length within a label length of 65535 that carry fewer bytes than announced and are sealed for the received bytes, and trains whose end fragment arrives damaged and then intact while the application tops the free list up at a drawn point; long: PDUs of 4 KiB..64 KiB fragmented by the real encapsulator, intact and with sampled bit flips / 32-bit bursts spread over the whole PDU (incl. offsets around 4095 and the last bytes) and a dropped fragment; big: trains near 65535 bytes with storage >= 64 KiB incl. over-long trains. Oracle 1 (specification on the received bytes) applies to every run; oracle 2 (no delivery / delivered == sent) to the fault classes the property names. Evaluation = one decap call of a faulted transfer; non-trivial = a faulted transfer (fault actually changed the bytes or the order) that was fed completely; fingerprint = hash(train, fault)."
    }
    fn gens(&self, cx: &Cx) -> Vec<Gen> {
        vec![
            Gen { name: "bits", count: cx.n(96, 4_000), exhaustive: false },
            Gen { name: "totlen", count: cx.n(16, 400), exhaustive: false },
            Gen { name: "double", count: cx.n(20_000, 2_000_000), exhaustive: false },
            Gen { name: "reseal", count: cx.n(20_000, 1_000_000), exhaustive: false },
            Gen { name: "big", count: cx.n(48, 3_000), exhaustive: false },
            Gen { name: "long", count: cx.n(400, 60_000), exhaustive: false },
            Gen { name: "state", count: cx.n(400, 40_000), exhaustive: false },
        ]
    }
    fn run_key(&self, cx: &Cx, gen: &str, key: u64, rep: &mut Report) {
        let replay_s = format!("gen={} key={} seed={} profile={}", gen, key, cx.seed, cx.profile);
        let replay = || replay_s.clone();
        let mut rng = Rng::derive(cx.seed, fnv(gen.as_bytes()), key);
        let fr = FastRef::new();
        match gen {
            "bits" | "totlen" | "double" => {
                let npk = 2 + rng.below(5);
                let plen = if gen == "bits" { 1 + rng.below(if key % 4 == 0 { 200 } else { 60 }) } else { 1 + rng.below(200) };
                let t = match build(&mut rng, plen, npk, rep) {
                    Some(t) => t,
                    None => return,
                };
                let storage = if rng.chance(1, 2) { plen } else { plen + rng.below(64) };
                // sanity: the intact train is delivered
                if !feed(&t, &t.pkts, storage, Expect::EqualIfDelivered, "intact", rep, &replay) {
                    rep.count("c03.intact-train-not-delivered");
                    return;
                }
                rep.count("c03.trains");
                let n = t.pkts.len();
                let tfp = fnv(&t.pkts.concat());
                if gen == "bits" {
                    for pi in 0..n {
                        if crate::expired() {
                            return;
                        }
                        let plen_b = t.pkts[pi].len();
                        let prot = t.protected[pi].clone();
                        // single bit flips
                        for bit in 0..plen_b * 8 {
                            if bit % 16 == 0 && crate::expired() {
                                return;
                            }
                            let mut pk = t.pkts.clone();
                            pk[pi][bit / 8] ^= 0x80 >> (bit % 8);
                            let inside = prot.iter().any(|r| r.contains(&(bit / 8)));
                            let exp = if inside { Expect::NoDelivery } else { Expect::SpecOnly };
                            feed(&t, &pk, storage, exp, if inside { "bitflip-protected" } else { "bitflip-header" }, rep, &replay);
                            rep.nontrivial(mix(tfp, (pi * 100_000 + bit) as u64));
                        }
                        // bursts confined to the protected bytes: every start bit x every length
                        let nb_pat = if cx.quick() { 1 } else { 3 };
                        for run in prot.iter() {
                        let lo = run.start * 8;
                        let hi = run.end * 8;
                        for start in lo..hi {
                            if crate::expired() {
                                return;
                            }
                            for len in 2..=32usize {
                                if start + len > hi {
                                    break;
                                }
                                for pat in 0..nb_pat {
                                    let mut pk = t.pkts.clone();
                                    for k in 0..len {
                                        // first and last bit of a burst are always flipped
                                        let flip = k == 0 || k + 1 == len || pat == 0 || (rng.next() & 1) == 1;
                                        if flip {
                                            let b = start + k;
                                            pk[pi][b / 8] ^= 0x80 >> (b % 8);
                                        }
                                    }
                                    feed(&t, &pk, storage, Expect::NoDelivery, "burst-protected", rep, &replay);
                                }
                            }
                            rep.nontrivial(mix(tfp, (pi * 100_000 + start) as u64 | 1 << 50));
                        }
                        }
                        // truncation at every byte
                        for cut in 0..plen_b {
                            let mut pk = t.pkts.clone();
                            pk[pi].truncate(cut);
                            feed(&t, &pk, storage, Expect::NoDelivery, "truncation", rep, &replay);
                        }
                        // drop / duplicate / swap
                        let carries = t.payload_len[pi] > 0;
                        let mut pk = t.pkts.clone();
                        pk.remove(pi);
                        feed(&t, &pk, storage, if carries || pi == 0 || pi + 1 == n { Expect::NoDelivery } else { Expect::EqualIfDelivered }, "drop", rep, &replay);
                        let mut pk = t.pkts.clone();
                        pk.insert(pi, t.pkts[pi].clone());
                        feed(&t, &pk, storage, if carries && pi > 0 && pi + 1 < n { Expect::NoDelivery } else { Expect::EqualIfDelivered }, "duplicate", rep, &replay);
                        if pi + 1 < n {
                            let mut pk = t.pkts.clone();
                            pk.swap(pi, pi + 1);
                            feed(&t, &pk, storage, Expect::EqualIfDelivered, "swap", rep, &replay);
                        }
                        // a duplicate of this fragment with one of its 16 header bits flipped (a second copy that the
                        // receiver may refuse, but that belongs to the arrival-order concatenation if it parses)
                        for hb in 0..16usize {
                            let mut dupe = t.pkts[pi].clone();
                            dupe[hb / 8] ^= 0x80 >> (hb % 8);
                            let mut pk = t.pkts.clone();
                            pk.insert(pi + 1, dupe);
                            feed(&t, &pk, storage, Expect::SpecOnly, "duplicate-with-header-bit-flip", rep, &replay);
                        }
                        // frag id field <- all values
                        for v in 0..=255u8 {
                            if v == t.id {
                                continue;
                            }
                            let mut pk = t.pkts.clone();
                            pk[pi][2] = v;
                            feed(&t, &pk, storage, Expect::NoDelivery, "frag-id-replaced", rep, &replay);
                        }
                    }
                    // CRC trailer variants
                    let last = n - 1;
                    let l = t.pkts[last].len();
                    let crc = u32::from_be_bytes([t.pkts[last][l - 4], t.pkts[last][l - 3], t.pkts[last][l - 2], t.pkts[last][l - 1]]);
                    let mut vals = vec![0u32, !crc, crc.wrapping_add(1), crc.wrapping_sub(1), crc.rotate_left(8), crc.rotate_left(16), crc.rotate_left(24), crc.swap_bytes()];
                    for _ in 0..64 {
                        vals.push(rng.next() as u32);
                    }
                    for v in vals {
                        if v == crc {
                            continue;
                        }
                        let mut pk = t.pkts.clone();
                        pk[last][l - 4..].copy_from_slice(&v.to_be_bytes());
                        feed(&t, &pk, storage, Expect::NoDelivery, "crc-replaced", rep, &replay);
                    }
                    if key == 0 {
                        rep.sample(|| format!("bits: train of {} packets (pdu {}B, label {}, id {}): every single bit, every burst <= 32 bits in the protected bytes, every truncation, drop/dup/swap, 255 frag ids, 72 trailers -> never delivered corrupted", n, plen, label_str(&t.label), t.id));
                    }
                } else if gen == "totlen" {
                    let cur = u16::from_be_bytes([t.pkts[0][3], t.pkts[0][4]]);
                    for v in 0..=65535u16 {
                        if v % 64 == 0 && crate::expired() {
                            return;
                        }
                        if v == cur {
                            continue;
                        }
                        let mut pk = t.pkts.clone();
                        pk[0][3..5].copy_from_slice(&v.to_be_bytes());
                        feed(&t, &pk, if v % 8 == 0 { 70000 } else { storage }, Expect::NoDelivery, "total-length-replaced", rep, &replay);
                    }
                    rep.nontrivial(mix(tfp, 0x7071));
                } else {
                    // double faults
                    let mut pk = t.pkts.clone();
                    let mut named = true;
                    for _ in 0..2 {
                        if pk.is_empty() {
                            break;
                        }
                        let pi = rng.below(pk.len());
                        match rng.below(7) {
                            0 => {
                                let l = pk[pi].len();
                                if l > 0 {
                                    let bit = rng.below(l * 8);
                                    pk[pi][bit / 8] ^= 0x80 >> (bit % 8);
                                    named = false;
                                }
                            }
                            1 => {
                                pk.remove(pi);
                                named = false;
                            }
                            2 => {
                                let c = pk[pi].clone();
                                pk.insert(pi, c);
                                named = false;
                            }
                            3 => {
                                let j = rng.below(pk.len());
                                pk.swap(pi, j);
                                named = false;
                            }
                            4 => {
                                let l = pk[pi].len();
                                pk[pi].truncate(rng.below(l + 1));
                                named = false;
                            }
                            5 => {
                                if pk[pi].len() > 2 {
                                    pk[pi][2] = rng.byte();
                                    named = false;
                                }
                            }
                            _ => {
                                let l = pk[pi].len();
                                if l >= 4 {
                                    let o = rng.below(l - 3);
                                    let v = rng.next() as u32;
                                    for k in 0..4 {
                                        pk[pi][o + k] ^= (v >> (8 * k)) as u8;
                                    }
                                    named = false;
                                }
                            }
                        }
                    }
                    let _ = named;
                    feed(&t, &pk, storage, Expect::SpecOnly, "double-fault", rep, &replay);
                    rep.nontrivial(mix(tfp, fnv(&pk.concat())));
                }
            }
            "reseal" => {
                // hand-made, syntactically valid trains whose trailer / total length fit a WRONG interpretation
                let lt = rng.below(3) as u8;
                let label = rng.bytes(6);
                let wl: Vec<u8> = match lt {
                    0 => {
                        let mut l = label.clone();
                        l[0] |= 1;
                        l
                    }
                    1 => label[..3].to_vec(),
                    _ => vec![],
                };
                let id = rng.byte();
                let ptype = gen_user_ptype(&mut rng);
                let nseg = 3 + rng.below(4);
                let segs: Vec<Vec<u8>> = (0..nseg)
                    .map(|_| {
                        let n = 1 + rng.below(40);
                        rng.bytes(n)
                    })
                    .collect();
                let full: Vec<u8> = segs.concat();
                let total = |pdu_len: usize| (2 + wl.len() + pdu_len) as u16;
                let mk = |total_len: u16, crc_over: &[u8], order: &[usize]| -> Vec<Vec<u8>> {
                    let crc = fr.gse(total_len, ptype, &wl, crc_over);
                    let mut v = Vec::new();
                    for (k, si) in order.iter().enumerate() {
                        if k == 0 {
                            v.push(mk_first(lt, &wl, id, total_len, ptype, &segs[*si]));
                        } else if k + 1 == order.len() {
                            v.push(mk_end(id, &segs[*si], crc));
                        } else {
                            v.push(mk_inter(id, &segs[*si]));
                        }
                    }
                    v
                };
                let all: Vec<usize> = (0..nseg).collect();
                let variant = rng.below(15);
                let mut primed_deliveries = 0usize;
                let (pkts, class): (Vec<Vec<u8>>, &str) = match variant {
                    0 => {
                        // fragment dropped on the wire, but trailer and total length sealed for the FULL PDU
                        let drop = 1 + rng.below(nseg - 2);
                        let mut p = mk(total(full.len()), &full, &all);
                        p.remove(drop);
                        (p, "reseal-dropped-fragment-full-seal")
                    }
                    1 => {
                        // duplicate on the wire, sealed for the original
                        let dup = 1 + rng.below(nseg - 2);
                        let mut p = mk(total(full.len()), &full, &all);
                        let c = p[dup].clone();
                        p.insert(dup, c);
                        (p, "reseal-duplicated-fragment-full-seal")
                    }
                    2 => {
                        // total length sealed for the full PDU, CRC sealed for the PDU without one fragment, wire lacks it
                        let drop = 1 + rng.below(nseg - 2);
                        let mut order = all.clone();
                        order.remove(drop);
                        let short: Vec<u8> = order.iter().flat_map(|i| segs[*i].clone()).collect();
                        let p = mk(total(full.len()), &short, &order);
                        (p, "reseal-crc-for-short-length-for-full")
                    }
                    3 => {
                        // spliced trains: first fragment of PDU A, rest of PDU B (same id), B's seal
                        let other: Vec<Vec<u8>> = (0..nseg)
                            .map(|_| {
                                let n = 1 + rng.below(40);
                                rng.bytes(n)
                            })
                            .collect();
                        let ofull: Vec<u8> = other.concat();
                        let crc = fr.gse(total(ofull.len()), ptype, &wl, &ofull);
                        let mut p = vec![mk_first(lt, &wl, id, total(full.len()), ptype, &segs[0])];
                        for k in 1..nseg - 1 {
                            p.push(mk_inter(id, &other[k]));
                        }
                        p.push(mk_end(id, &other[nseg - 1], crc));
                        (p, "reseal-spliced-trains")
                    }
                    4 => {
                        // two first fragments: the second restarts; the seal is for first#1 + rest
                        let mut p = mk(total(full.len()), &full, &all);
                        let alt = mk_first(lt, &wl, id, total(full.len()), ptype, &rng.bytes(segs[0].len()));
                        p.insert(1, alt);
                        (p, "reseal-restart-with-other-first")
                    }
                    6 => {
                        // explicit label on the wire, but total length and CRC sealed as if the label were re-used
                        let t = (2 + full.len()) as u16;
                        let crc = fr.gse(t, ptype, &[], &full);
                        let mut p = vec![mk_first(lt, &wl, id, t, ptype, &segs[0])];
                        for k in 1..nseg - 1 {
                            p.push(mk_inter(id, &segs[k]));
                        }
                        p.push(mk_end(id, &segs[nseg - 1], crc));
                        (p, if wl.is_empty() { "reseal-control-valid" } else { "reseal-sealed-without-the-label" })
                    }
                    7 => {
                        // the SAME first fragment repeated after an intermediate fragment (sealed for the whole):
                        // the second first fragment restarts the reassembly, the bytes before it are gone
                        let mut p = mk(total(full.len()), &full, &all);
                        let f = p[0].clone();
                        p.insert(2, f);
                        (p, "reseal-first-repeated-after-intermediate")
                    }
                    8 => {
                        // an end fragment arrives early (rejected), the train goes on and is sealed for
                        // everything except the early end's bytes
                        let early_n = 1 + rng.below(20);
                        let early = rng.bytes(early_n);
                        let mut p = mk(total(full.len()), &full, &all);
                        p.insert(2, mk_end(id, &early, rng.next() as u32));
                        (p, "reseal-early-end-then-continue")
                    }
                    9 => {
                        // fragmented transfer of a ZERO-length PDU (never produced by the encapsulator) with a
                        // wrong trailer / a corrupted protocol type
                        let t = (2 + wl.len()) as u16;
                        let good = fr.gse(t, ptype, &wl, &[]);
                        let bad_kind = rng.below(3);
                        let crc = if bad_kind == 0 { good ^ (1 << rng.below(32)) } else { good };
                        let pt = if bad_kind == 1 { ptype ^ 0x0100 | 0x0800 } else { ptype };
                        let p = vec![mk_first(lt, &wl, id, t, pt, &[]), mk_end(id, &[], crc)];
                        (p, if bad_kind == 2 || (bad_kind == 1 && pt == ptype) { "reseal-control-valid" } else { "reseal-zero-length-pdu-bad-seal" })
                    }
                    10 => {
                        // a valid train interrupted by a first fragment of the SAME id that the receiver must refuse
                        // (unknown mandatory extension, extension chain running past the packet, null label,
                        // total length too small, payload larger than the storage, unresolvable re-use label): it is
                        // the most recent first fragment of that id, so the old train's remaining fragments no
                        // longer complete anything
                        let mut p = mk(total(full.len()), &full, &all);
                        let at = 1 + rng.below(nseg - 1);
                        let pay_n = 1 + rng.below(20);
                        let pay = rng.bytes(pay_n);
                        let t2 = total(pay.len() + 30);
                        let kind = rng.below(if lt == 2 { 6 } else { 5 });
                        let bad = match kind {
                            0 => wire::serialise(&wire::Fields { kind: Kind::First, lt, frag_id: id, total_len: t2, ptype, label: &wl, exts: &[wire::ExtEntry { id: 0x0000 | rng.byte() as u16, data: vec![] }], final_ext: true, payload: &pay, crc: 0 }),
                            1 => {
                                // optional extension announcing 8 data bytes in a packet that ends after 3
                                let mut b = wire::serialise(&wire::Fields { kind: Kind::First, lt, frag_id: id, total_len: t2, ptype: 0x0500 | rng.byte() as u16, label: &wl, exts: &[], final_ext: false, payload: &pay[..pay.len().min(3)], crc: 0 });
                                let _ = &mut b;
                                b
                            }
                            2 => mk_first(0, &[0, 0, 0, 0, 0, 0], id, t2, ptype, &pay),
                            3 => mk_first(lt, &wl, id, pay.len() as u16, ptype, &pay),
                            4 => {
                                let big_n = full.len() + 81 + rng.below(40);
                                let big = rng.bytes(big_n);
                                mk_first(lt, &wl, id, total(big.len() + 10), ptype, &big)
                            }
                            _ => mk_first(3, &[], id, (2 + pay.len() + 30) as u16, ptype, &pay),
                        };
                        p.insert(at, bad);
                        if rng.chance(1, 2) {
                            // (an empty "packet" = the application provisions storage until the memory reports full:
                            // the refused first fragment then cannot give the abandoned train's buffer back)
                            p.insert(at, vec![]);
                        }
                        (p, ["reseal-refused-restart:unknown-mandatory", "reseal-refused-restart:chain-overrun", "reseal-refused-restart:null-label", "reseal-refused-restart:short-total", "reseal-refused-restart:oversize", "reseal-refused-restart:unresolvable-reuse"][kind])
                    }
                    11 | 12 => {
                        // a train whose first fragment carries an extension header and whose total length and
                        // trailer are sealed for "payload with a gap of g stale bytes" (after the first fragment's
                        // payload, or before it): the storage content is known (fresh zeroes, or the PDU delivered
                        // just before from the same buffer), so the seal is right for a receiver that leaves a gap
                        let ext = wire::ExtEntry { id: 0x0200 | rng.byte() as u16, data: rng.bytes(2) };
                        let ext_extra = wire::chain_extra_len(std::slice::from_ref(&ext), false);
                        let g = if rng.chance(1, 2) { ext_extra } else { 1 + rng.below(8) };
                        let a = &segs[0];
                        let b: Vec<u8> = segs[1..].concat();
                        let prime_pdu: Vec<u8> = rng.bytes(a.len() + g + b.len() + 8);
                        let use_prime = rng.chance(1, 2);
                        let stale = |i: usize| if use_prime { prime_pdu[i] } else { 0u8 };
                        let mut sealed: Vec<u8> = Vec::new();
                        if variant == 11 {
                            sealed.extend_from_slice(a);
                            sealed.extend((a.len()..a.len() + g).map(stale));
                        } else {
                            sealed.extend((0..g).map(stale));
                            sealed.extend_from_slice(a);
                        }
                        sealed.extend_from_slice(&b);
                        let t = total(sealed.len());
                        let crc = fr.gse(t, ptype, &wl, &sealed);
                        let mut p = Vec::new();
                        if use_prime {
                            // a valid transfer on another id leaves its bytes in the buffer that is used next
                            let cut = prime_pdu.len() / 2;
                            p.extend(crate::hostile::mk_train(&fr, lt, &wl, id.wrapping_add(1), ptype, &prime_pdu, &[cut]));
                            primed_deliveries = 1;
                        }
                        p.push(wire::serialise(&wire::Fields { kind: Kind::First, lt, frag_id: id, total_len: t, ptype, label: &wl, exts: std::slice::from_ref(&ext), final_ext: false, payload: a, crc: 0 }));
                        for k in 1..nseg - 1 {
                            p.push(mk_inter(id, &segs[k]));
                        }
                        p.push(mk_end(id, &segs[nseg - 1], crc));
                        (p, if variant == 11 { "reseal-gap-of-stale-bytes-after-first-fragment" } else { "reseal-gap-of-stale-bytes-before-first-fragment" })
                    }
                    14 => {
                        // a train whose announced total length is SMALLER than protocol type + label (0 .. 2 + label - 1),
                        // with an empty or tiny payload and a trailer that is right for exactly these fields
                        let t = rng.below(2 + wl.len()) as u16;
                        let pay: Vec<u8> = if rng.chance(1, 2) { vec![] } else { rng.bytes(1) };
                        let crc = fr.gse(t, ptype, &wl, &pay);
                        let p = vec![mk_first(lt, &wl, id, t, ptype, &[]), mk_end(id, &pay, crc)];
                        (p, "reseal-total-length-below-type-and-label")
                    }
                    13 if lt < 2 => {
                        // a train abandoned on the same fragment id in the OTHER label mode, then a train sealed for the
                        // abandoned train's mode: (a) re-use first fragment abandoned, then an explicit-label train sealed
                        // as if its label were re-used; (b) explicit-label first fragment abandoned, then a re-use train
                        // sealed as if its label were written
                        let junk = rng.bytes(5);
                        let mut p = vec![crate::hostile::mk_complete(lt, &wl, ptype, b"")];
                        if rng.chance(1, 2) {
                            p.push(mk_first(3, &[], id, (2 + 40) as u16, ptype, &junk));
                            let t = (2 + full.len()) as u16;
                            let crc = fr.gse(t, ptype, &[], &full);
                            p.push(mk_first(lt, &wl, id, t, ptype, &segs[0]));
                            for k in 1..nseg - 1 {
                                p.push(mk_inter(id, &segs[k]));
                            }
                            p.push(mk_end(id, &segs[nseg - 1], crc));
                            primed_deliveries = 1;
                            (p, "reseal-explicit-train-sealed-as-re-use-after-abandoned-re-use-train")
                        } else {
                            p.push(mk_first(lt, &wl, id, total(40), ptype, &junk));
                            let t = total(full.len());
                            let crc = fr.gse(t, ptype, &wl, &full);
                            p.push(mk_first(3, &[], id, t, ptype, &segs[0]));
                            for k in 1..nseg - 1 {
                                p.push(mk_inter(id, &segs[k]));
                            }
                            p.push(mk_end(id, &segs[nseg - 1], crc));
                            primed_deliveries = 1;
                            (p, "reseal-re-use-train-sealed-with-label-after-abandoned-explicit-train")
                        }
                    }
                    _ => {
                        // correct train (must be delivered and verified by oracle 1)
                        (mk(total(full.len()), &full, &all), "reseal-control-valid")
                    }
                };
                let table = MandTable::none();
                let storage = full.len() + 80;
                let mut d = plain_dec(2, storage, 2, storage, table.clone());
                let mut rx = RxSpec::new(table);
                let mut deliveries = 0usize;
                for p in &pkts {
                    if p.is_empty() {
                        for _ in 0..64 {
                            if d.provision_storage(vec![0u8; storage].into_boxed_slice()).is_err() {
                                break;
                            }
                        }
                        continue;
                    }
                    rep.eval();
                    let r = dec_guard(&mut d, p);
                    if r.is_err() {
                        rep.count("c03.receiver-panic");
                        return;
                    }
                    rx.observe(p, &r, RX_C03, class, rep, &replay);
                    if let Ok(Ok((DecapStatus::CompletedPkt(b, _), _))) = r {
                        deliveries += 1;
                        let _ = d.provision_storage(b);
                    }
                }
                if primed_deliveries > 0 && deliveries < primed_deliveries {
                    rep.count("c03.priming-transfer-not-delivered");
                }
                let delivered = deliveries > primed_deliveries;
                if delivered && class != "reseal-control-valid" && variant != 4 {
                    rep.violation("C03", format!("delivered-despite-fault:{}", class), || format!("{}: a PDU was delivered from {:?}", class, pkts.iter().map(|p| hex_short(p, 20)).collect::<Vec<_>>()), &replay);
                }
                if !delivered && class == "reseal-control-valid" {
                    rep.count("c03.valid-control-rejected");
                }
                rep.count(&format!("c03.{}.{}", class, if delivered { "delivered" } else { "rejected" }));
                rep.nontrivial(mix(key, fnv(&pkts.concat())));
            }
            "long" => {
                // PDUs of 4 KiB .. 64 KiB fragmented by the real encapsulator (fragments of up to 4097 bytes): the intact
                // train, then sampled single-bit flips and 32-bit bursts at positions spread over the whole PDU (first
                // bytes, around 4095, the last bytes), a dropped and a duplicated fragment
                let plen = match rng.below(4) {
                    0 => rng.range(4090, 4200),
                    1 => rng.range(4200, 9000),
                    2 => rng.range(9000, 30000),
                    _ => rng.range(30000, 65520),
                };
                let lk = rng.below(3);
                let label = gen_label(&mut rng, [0usize, 2, 4][lk]);
                let pdu = rng.bytes(plen);
                let ptype = gen_user_ptype(&mut rng);
                let id = rng.byte();
                let mut enc = Encapsulator::new(DefaultCrc {});
                let meta = EncapMetadata::new(ptype, label);
                let mut r2 = rng.clone();
                let t = match build_train(&mut enc, &pdu, id, meta, None, |_| [4097usize, 4097, 2000, 1000, 70000][r2.below(5)], 200) {
                    Ok(t) if t.complete && t.pkts.len() >= 2 => t,
                    _ => {
                        rep.count("c03.long-train-not-built");
                        return;
                    }
                };
                let table = MandTable::none();
                let run = |pkts: &[Vec<u8>], class: &str, must_not_deliver: bool, rep: &mut Report| -> bool {
                    let mut d = plain_dec(2, plen, 2, plen, table.clone());
                    let mut rx = RxSpec::new(table.clone());
                    let mut delivered = false;
                    for p in pkts {
                        rep.eval();
                        let r = dec_guard(&mut d, p);
                        if r.is_err() {
                            rep.count("c03.receiver-panic");
                            return false;
                        }
                        rx.observe(p, &r, RX_C03, class, rep, &replay);
                        if let Ok(Ok((DecapStatus::CompletedPkt(b, m), _))) = &r {
                            delivered = true;
                            if must_not_deliver {
                                rep.violation("C03", format!("delivered-despite-fault:{}", class), || format!("{}: PDU of {} bytes in {} fragments: a PDU ({} bytes, equal to the original: {}) was delivered", class, plen, pkts.len(), m.pdu_len(), m.pdu_len() == plen && b[..plen] == pdu[..]), &replay);
                            }
                        }
                    }
                    delivered
                };
                if !run(&t.pkts, "long-intact", false, rep) {
                    rep.count("c03.long-intact-not-delivered");
                    return;
                }
                rep.count("c03.long-trains");
                // payload offsets -> (packet, byte) via the parsed payload ranges
                let mut map: Vec<(usize, usize, usize)> = Vec::new(); // (pdu offset of first payload byte, packet, offset in packet)
                let mut off = 0usize;
                for (pi, p) in t.pkts.iter().enumerate() {
                    if let Ok(pp) = wire::parse(p, &table) {
                        map.push((off, pi, pp.payload.start));
                        off += pp.payload.len();
                    }
                }
                let locate = |o: usize| -> Option<(usize, usize)> {
                    let mut best = None;
                    for (start, pi, po) in &map {
                        if *start <= o {
                            best = Some((*pi, po + (o - start)));
                        }
                    }
                    best
                };
                let mut positions: Vec<usize> = vec![0, 1, 4093, 4094, 4095, 4096, 4097, plen / 2, plen - 5, plen - 1];
                for _ in 0..6 {
                    positions.push(rng.below(plen));
                }
                for o in positions {
                    if o >= plen {
                        continue;
                    }
                    if let Some((pi, bo)) = locate(o) {
                        if bo < t.pkts[pi].len() {
                            let mut pk = t.pkts.clone();
                            pk[pi][bo] ^= 1 << rng.below(8);
                            run(&pk, "long-bitflip", true, rep);
                            if bo + 4 <= t.pkts[pi].len() {
                                let mut pk = t.pkts.clone();
                                for k in 0..4 {
                                    pk[pi][bo + k] ^= 0xFF;
                                }
                                run(&pk, "long-burst-32", true, rep);
                            }
                        }
                    }
                }
                let di = 1 + rng.below(t.pkts.len() - 1);
                let mut pk = t.pkts.clone();
                pk.remove(di.min(pk.len() - 1));
                run(&pk, "long-drop", true, rep);
                rep.nontrivial(mix(0x10A6, mix(key, plen as u64)));
            }
            "state" => {
                // scripted faults that need a particular receiver state
                let l6 = rng.chance(1, 2);
                let lt = if l6 { 0u8 } else { 1u8 };
                let mut wl = rng.bytes(if l6 { 6 } else { 3 });
                wl[0] |= 1;
                let ptype = gen_user_ptype(&mut rng);
                let id = rng.byte();
                let table = MandTable::none();
                if key % 2 == 0 {
                    // (a) a re-use train whose announced total length is within a label length of 65535 and that
                    // carries d bytes less than announced, sealed for what was received (three readings of the
                    // total length that goes into the CRC); a receiver that keeps the label in its length
                    // bookkeeping and clamps at 16 bits takes it
                    let k = rng.below(wl.len());
                    let t_ann = (65535 - k) as u16;
                    let d = if rng.chance(2, 3) { wl.len() - k } else { 1 + rng.below(8) };
                    let r_len = t_ann as usize - 2 - d;
                    let data = rng.bytes(r_len);
                    let crc_total = match rng.below(3) {
                        0 => (r_len + 2) as u16,
                        1 => t_ann,
                        _ => (r_len + 2 + wl.len()).min(65535) as u16,
                    };
                    let crc = fr.gse(crc_total, ptype, &[], &data);
                    let first_n = rng.below(120);
                    let mut pkts = vec![crate::hostile::mk_complete(lt, &wl, ptype, b"x"), mk_first(3, &[], id, t_ann, ptype, &data[..first_n])];
                    let mut off = first_n;
                    while r_len - off > 4000 {
                        pkts.push(mk_inter(id, &data[off..off + 4000]));
                        off += 4000;
                    }
                    pkts.push(mk_end(id, &data[off..], crc));
                    let storage = 70000usize;
                    let mut d_rx = plain_dec(2, storage, 2, storage, table.clone());
                    let mut rx = RxSpec::new(table);
                    let mut deliveries = 0usize;
                    for p in &pkts {
                        rep.eval();
                        let r = dec_guard(&mut d_rx, p);
                        if r.is_err() {
                            rep.count("c03.receiver-panic");
                            return;
                        }
                        rx.observe(p, &r, RX_C03, "state-near-limit-re-use-short", rep, &replay);
                        if let Ok(Ok((DecapStatus::CompletedPkt(b, m), _))) = r {
                            deliveries += 1;
                            if deliveries > 1 {
                                rep.violation("C03", "delivered-despite-fault:near-limit-re-use-train-short".to_string(), || format!("re-use train announcing total length {} carried {} payload bytes ({} short), trailer computed with total length {}: a PDU of {} bytes was delivered", t_ann, r_len, d, crc_total, m.pdu_len()), &replay);
                            }
                            let _ = d_rx.provision_storage(b);
                        }
                    }
                    rep.count(if deliveries > 1 { "c03.state-near-limit.delivered" } else { "c03.state-near-limit.rejected" });
                    rep.nontrivial(mix(key, mix(t_ann as u64, d as u64)));
                } else {
                    // (b) a valid train whose end fragment arrives first with a damaged trailer (or a damaged payload
                    // byte) and then intact; the application tops the free list up at a drawn point of the train
                    // (before the train, after the first fragment, before the damaged end, never)
                    let nseg = 3 + rng.below(3);
                    let segs: Vec<Vec<u8>> = (0..nseg)
                        .map(|_| {
                            let n = 1 + rng.below(40);
                            rng.bytes(n)
                        })
                        .collect();
                    let full: Vec<u8> = segs.concat();
                    let explicit = rng.chance(1, 2);
                    let (flt, fwl): (u8, &[u8]) = if explicit { (lt, &wl) } else { (3, &[]) };
                    let t = (2 + fwl.len() + full.len()) as u16;
                    let crc = fr.gse(t, ptype, fwl, &full);
                    let mut pkts: Vec<Vec<u8>> = vec![crate::hostile::mk_complete(lt, &wl, ptype, b"x"), mk_first(flt, fwl, id, t, ptype, &segs[0])];
                    for sg in segs.iter().take(nseg - 1).skip(1) {
                        pkts.push(mk_inter(id, sg));
                    }
                    let good_end = mk_end(id, &segs[nseg - 1], crc);
                    let mut bad_end = good_end.clone();
                    let n = bad_end.len();
                    let at = if rng.chance(1, 2) { n - 1 - rng.below(4) } else { 3 + rng.below(n - 3) };
                    bad_end[at] ^= 1 << rng.below(8);
                    pkts.push(bad_end);
                    pkts.push(good_end);
                    let topup = rng.below(4);
                    let topup_at = match topup {
                        0 => 1,
                        1 => 2,
                        2 => pkts.len() - 2,
                        _ => usize::MAX,
                    };
                    let storage = full.len() + rng.below(40);
                    let slots = 1 + rng.below(3);
                    let mut d_rx = plain_dec(slots, storage, 2, storage, table.clone());
                    let mut rx = RxSpec::new(table);
                    let mut deliveries = 0usize;
                    for (i, p) in pkts.iter().enumerate() {
                        if i == topup_at {
                            for _ in 0..64 {
                                if d_rx.provision_storage(vec![0u8; storage].into_boxed_slice()).is_err() {
                                    break;
                                }
                            }
                        }
                        rep.eval();
                        let r = dec_guard(&mut d_rx, p);
                        if r.is_err() {
                            rep.count("c03.receiver-panic");
                            return;
                        }
                        rx.observe(p, &r, RX_C03, "state-damaged-end-then-intact-end", rep, &replay);
                        if let Ok(Ok((DecapStatus::CompletedPkt(b, _), _))) = r {
                            deliveries += 1;
                            if deliveries > 1 {
                                rep.violation("C03", "delivered-despite-fault:end-fragment-damaged-then-repeated-intact".to_string(), || format!("train of {} fragments on id {}: the end fragment arrived damaged (byte {}) and then intact, free list topped up at packet {:?}: a PDU was delivered", nseg, id, at, if topup < 3 { Some(topup_at) } else { None }), &replay);
                            }
                            let _ = d_rx.provision_storage(b);
                        }
                    }
                    rep.count(&format!("c03.state-damaged-end.topup{}.{}", topup, if deliveries > 1 { "delivered" } else { "rejected" }));
                    rep.nontrivial(mix(key, fnv(&pkts.concat())));
                }
            }
            "big" => {
                // storage >= 64 KiB; trains whose received payload approaches / exceeds 65535 bytes, with a
                // trailer sealed for the 16-bit wrapped interpretation
                let lt = 2u8;
                let wl: Vec<u8> = vec![];
                let id = rng.byte();
                let ptype = 0x0800u16;
                let seg = 4000usize;
                let variant = rng.below(4);
                // received payload length R; announced total length T
                let (r_len, overlay): (usize, bool) = match variant {
                    0 => (65533, false),                    // valid maximum PDU
                    1 => (65536 + rng.below(4000), true),   // over-long, sealed for the wrapped overlay
                    2 => (65534 + rng.below(3), true),
                    _ => (60000 + rng.below(5000), false),
                };
                let data = rng.bytes(r_len);
                let storage = 70000usize;
                // fragment sizes: a small first fragment (so that a small announced total length passes the
                // first-fragment sanity check), then 4000-byte fragments
                let first_n = std::cmp::min(r_len, rng.below(120));
                let mut sizes = vec![first_n];
                let mut left = r_len - first_n;
                while left > 0 {
                    let n = std::cmp::min(seg, left);
                    sizes.push(n);
                    left -= n;
                }
                if sizes.len() < 2 {
                    sizes.push(0);
                }
                // what a receiver whose received-length bookkeeping wraps at 16 bits would believe it has:
                // simulate the append-at-offset writes with a wrapping offset
                let (seal_total, seal_bytes): (u16, Vec<u8>) = if overlay {
                    let mut img = vec![0u8; storage + seg];
                    let mut pos = 0usize;
                    let mut o = 0usize;
                    for n in &sizes {
                        img[pos..pos + n].copy_from_slice(&data[o..o + n]);
                        o += n;
                        pos = (pos + n) & 0xFFFF;
                    }
                    img.truncate(pos);
                    (((2 + pos) & 0xFFFF) as u16, img)
                } else {
                    ((2 + r_len) as u16, data.clone())
                };
                let crc = fr.gse(seal_total, ptype, &wl, &seal_bytes);
                let mut pkts = Vec::new();
                let mut off = 0usize;
                let dup_last_inter = !overlay && rng.chance(1, 2);
                for (k, n) in sizes.iter().enumerate() {
                    let last = k + 1 == sizes.len();
                    if k == 0 {
                        pkts.push(mk_first(lt, &wl, id, seal_total, ptype, &data[off..off + n]));
                    } else if last {
                        pkts.push(mk_end(id, &data[off..off + n], crc));
                    } else {
                        pkts.push(mk_inter(id, &data[off..off + n]));
                    }
                    off += n;
                }
                if dup_last_inter && pkts.len() >= 3 {
                    // the last intermediate fragment arrives twice: the received length exceeds what was announced
                    // (and, for a maximal PDU, the 16-bit range); nothing may be delivered
                    let i = pkts.len() - 2;
                    let c = pkts[i].clone();
                    pkts.insert(i + 1, c);
                }
                let table = MandTable::none();
                let mut d = plain_dec(1, storage, 1, storage, table.clone());
                let mut rx = RxSpec::new(table);
                let class = ["big-valid-max", "big-overlong-wrapped-seal", "big-boundary-wrapped-seal", "big-valid"][variant];
                let mut delivered = false;
                for p in &pkts {
                    rep.eval();
                    let r = dec_guard(&mut d, p);
                    if r.is_err() {
                        rep.count("c03.receiver-panic");
                        return;
                    }
                    rx.observe(p, &r, RX_C03, class, rep, &replay);
                    if let Ok(Ok((DecapStatus::CompletedPkt(b, m), _))) = r {
                        delivered = true;
                        if overlay || dup_last_inter {
                            rep.violation("C03", format!("delivered-despite-fault:{}{}", class, if dup_last_inter { "+last-intermediate-duplicated" } else { "" }), || format!("{}: {} payload bytes received under an announced total length of {}; a PDU of {} bytes was delivered", class, r_len, seal_total, m.pdu_len()), &replay);
                        }
                        let _ = d.provision_storage(b);
                    }
                }
                rep.count(&format!("c03.{}{}.{}", class, if dup_last_inter { "+dup" } else { "" }, if delivered { "delivered" } else { "rejected" }));
                rep.nontrivial(mix(key, r_len as u64));
                if key < 2 {
                    rep.sample(|| format!("big: {} ({} payload bytes in {} packets, announced total length {}, storage {}B) -> delivered={}", class, r_len, pkts.len(), seal_total, storage, delivered));
                }
            }
            _ => {}
        }
    }
    fn floors(&self, _cx: &Cx, rep: &mut Report) {
        for k in ["c03.trains", "c03.delivered", "c03.rejected", "c03.reseal-control-valid.delivered", "c03.big-valid-max.delivered"] {
            if rep.get(k) == 0 {
                rep.floors_missing.push(format!("C03 floor: counter {} is 0", k));
            }
        }
    }
}
