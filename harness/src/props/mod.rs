//! One module per property (C01..C20).

use crate::Property;

pub mod c14;

pub fn lookup(id: &str) -> Option<&'static dyn Property> {
    match id {
        "C14" => Some(&c14::P),
        _ => None,
    }
}
