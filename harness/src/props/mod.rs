//! One module per property (C01..C20).

use crate::Property;
pub mod sendwl;
pub mod labelops;
pub mod frames;

macro_rules! props {
    ($($m:ident => $id:expr),* $(,)?) => {
        $(pub mod $m;)*
        pub fn lookup(id: &str) -> Option<&'static dyn Property> {
            match id {
                $($id => Some(&$m::P),)*
                _ => None,
            }
        }
        pub fn all_ids() -> Vec<&'static str> { vec![$($id),*] }
    };
}

props! {
    c01 => "C01",
    c02 => "C02",
    c03 => "C03",
    c04 => "C04",
    c05 => "C05",
    c06 => "C06",
    c07 => "C07",
    c08 => "C08",
    c09 => "C09",
    c10 => "C10",
    c11 => "C11",
    c12 => "C12",
    c13 => "C13",
    c14 => "C14",
    c15 => "C15",
    c16 => "C16",
    c17 => "C17",
    c18 => "C18",
    c19 => "C19",
    c20 => "C20",
}
