//! C13 — extension-header chains round-trip; unknown mandatory extensions cause a drop;
//! the extension constructor accepts exactly the legal (id, data length) pairs.

use crate::mon::{guard, panic_class, TableMgr};
use crate::report::Report;
use crate::rng::{fnv, hex_short, mix, Rng};
use crate::sender::{gen_chain, ExtSpec};
use crate::util::*;
use crate::wire::{self, ExtEntry, Kind, Mand, MandTable};
use crate::{Cx, Gen, Property};
use dvb_gse_rust::crc::DefaultCrc;
use dvb_gse_rust::gse_decap::{DecapError, DecapStatus, Decapsulator, GseDecapMemory, SimpleGseMemory};
use dvb_gse_rust::gse_encap::{ContextFrag, EncapMetadata, EncapStatus, Encapsulator};
use dvb_gse_rust::header_extension::{Extension, ExtensionData};
use dvb_gse_rust::label::Label;

pub struct Prop;
pub static P: Prop = Prop;

fn ext_to_entry(e: &Extension) -> ExtEntry {
    let data = match e.data() {
        ExtensionData::Data2(d) => d.to_vec(),
        ExtensionData::Data4(d) => d.to_vec(),
        ExtensionData::Data6(d) => d.to_vec(),
        ExtensionData::Data8(d) => d.to_vec(),
        ExtensionData::NoData => vec![],
        ExtensionData::MandatoryData(d) => d.clone(),
    };
    ExtEntry { id: e.id(), data }
}

fn chain_str(c: &ExtSpec) -> String {
    format!("[{}]{}", c.entries.iter().map(|e| format!("{:#06x}/{}", e.id, e.data.len())).collect::<Vec<_>>().join(","), if c.final_ext { " final" } else { "" })
}

struct Case<'a> {
    chain: &'a ExtSpec,
    ptype: u16,
    label: Label,
    primed: bool,
    pdu: &'a [u8],
    buf_len: usize,
    storage: usize,
    legal: bool,
    /// before the call under test, the same encapsulator refuses an encap_ext call with the same label
    /// (reserved protocol type / final mandatory extension that is not the protocol type): the refused call
    /// must leave nothing behind that changes how the next packet is encoded
    pre_fail: bool,
    /// before the call under test, the same encapsulator sends a chain with the SAME ids whose mandatory
    /// extensions carry data of other lengths (whatever the encapsulator remembers about a chain must not be
    /// keyed on the ids alone)
    pre_same_ids: bool,
}

/// returns outcome class
fn run_case(c: &Case, rng: &mut Rng, rep: &mut Report, replay: &dyn Fn() -> String) -> &'static str {
    let exts = match c.chain.to_crate() {
        Some(e) => e,
        None => return "unconstructible",
    };
    // receiver that knows every mandatory id used (and the protocol type when it is below 0x0100)
    let mut table = c.chain.table();
    if c.ptype < 0x100 && !c.chain.final_ext {
        table.t[c.ptype as usize] = Mand::Final(0);
    }
    let mut enc = Encapsulator::new(DefaultCrc {});
    let mut dec = plain_dec(2, c.storage, 2, c.storage, table.clone());
    let meta = EncapMetadata::new(c.ptype, c.label);
    let cls = format!("{}:{}{}{}", if c.legal { "legal" } else { "illegal" }, crate::sender::label_kind(&c.label), if c.primed { "+primed" } else { "" }, if c.pre_fail { "+after-refused-call" } else { "" });
    if c.primed {
        let mut b = [0u8; 32];
        match guard(|| enc.encap(b"", 0, meta_plain(c.label), &mut b)) {
            Ok(Ok(EncapStatus::CompletedPkt(n))) => match dec_guard(&mut dec, &b[..n as usize]) {
                Ok(Ok((DecapStatus::CompletedPkt(buf, _), _))) => {
                    let _ = dec.provision_storage(buf);
                }
                _ => return "prime-failed",
            },
            _ => return "prime-failed",
        }
    }
    if c.pre_fail {
        let mut b = vec![0u8; 4097];
        let (pt, ex) = if c.buf_len % 2 == 0 { (0x0100 + (c.buf_len % 0x500) as u16, exts.clone()) } else { (0x0043u16, vec![Extension::new(0x0042, &[1, 2, 3]).unwrap()]) };
        match guard(|| enc.encap_ext(c.pdu, 9, EncapMetadata::new(pt, c.label), &mut b, ex)) {
            Ok(Err(_)) => rep.count("c13.pre-fail-refused"),
            _ => return "pre-fail-not-refused",
        }
    }
    if c.pre_same_ids && c.chain.entries.iter().any(|e| e.id < 0x100) {
        let mut other = c.chain.clone();
        for e in other.entries.iter_mut() {
            if e.id < 0x100 {
                let n = if e.data.len() > 3 { e.data.len() / 2 } else { e.data.len() + 1 + c.buf_len % 3 };
                e.data = vec![0xEE; n];
            }
        }
        if let Some(ex) = other.to_crate() {
            let mut b = vec![0u8; 4097];
            let _ = guard(|| enc.encap_ext(b"other", 9, EncapMetadata::new(c.ptype, Label::Broadcast), &mut b, ex));
            rep.count("c13.pre-same-ids");
        }
    }
    if c.primed && c.buf_len % 4 == 3 {
        // the same encapsulator first sends a broadcast packet through encap_ext, and the receiver gets it: the label
        // of the packet under test has to be written in full again
        let mut b = vec![0u8; 64];
        let ex = vec![Extension::new(0x0233, &[1, 2]).unwrap()];
        if let Ok(Ok(EncapStatus::CompletedPkt(n))) = guard(|| enc.encap_ext(b"", 8, EncapMetadata::new(0x0800, Label::Broadcast), &mut b, ex)) {
            if let Ok(Ok((DecapStatus::CompletedPkt(bf, _), _))) = dec_guard(&mut dec, &b[..(n as usize).min(64)]) {
                let _ = dec.provision_storage(bf);
            }
            rep.count("c13.pre-broadcast-through-encap_ext");
        }
    }
    let mut buf = sentinel(c.buf_len, 0x3C);
    rep.eval();
    let r = guard(|| enc.encap_ext(c.pdu, 9, meta, &mut buf, exts.clone()));
    let desc = || format!("encap_ext(pdu {}B, type {:#06x}, label {}, chain {}, buffer {}B)", c.pdu.len(), c.ptype, label_str(&c.label), chain_str(c.chain), c.buf_len);
    let st = match r {
        Err(p) => {
            rep.violation("C13", format!("encap_ext-panic:{}:{}", panic_class(&p), cls), || format!("{} panicked: {}", desc(), p), replay);
            return "panic";
        }
        Ok(Err(_)) => return "error",
        Ok(Ok(s)) => s,
    };
    let (n, ctx) = status_parts(&st);
    // ---- reported length is the on-wire length
    if n < 2 || n > c.buf_len {
        rep.violation("C13", format!("reported-length:{}", cls), || format!("{} = {:?}: reported length outside the buffer", desc(), st), replay);
        return "bad-length";
    }
    let gl = (u16::from_be_bytes([buf[0], buf[1]]) & 0x0FFF) as usize;
    let written_end = (0..c.buf_len).rev().find(|&i| buf[i] != sentinel_byte(i, 0x3C)).map(|i| i + 1).unwrap_or(0);
    // "the reported length is the on-wire length" (bytes written behind the packet are C06's clause, not this one's)
    let _ = written_end;
    if gl + 2 != n {
        rep.violation("C13", format!("reported-length:{}:{}", if ctx.is_some() { "first" } else { "complete" }, cls), || format!("{} = {:?}: reported {} bytes, GSE length field says {}", desc(), st, n, gl + 2), replay);
        return "bad-length";
    }
    // ---- the independent parser with full knowledge of the chain recovers what was passed
    let pkt = buf[..n].to_vec();
    match wire::parse(&pkt, &table) {
        Ok(p) => {
            let mut want = c.chain.entries.clone();
            if c.ptype < 0x100 && !c.chain.final_ext {
                want.push(ExtEntry { id: c.ptype, data: vec![] });
            }
            let lt_ok = p.lt == lt_of_label(&c.label) || p.lt == 3;
            let k = p.payload.len();
            // a first fragment announces protocol type + label as written + PDU; what does not fit 16 bits cannot be
            // encoded decodably
            if let Some(tl) = p.total_len {
                let want_tl = 2 + p.label.len() + c.pdu.len();
                if tl as usize != want_tl {
                    rep.violation("C13", format!("total-length-field:{}", cls), || format!("{} = {:?}: total length field {} but protocol type + label ({} bytes written) + PDU = {}", desc(), st, tl, p.label.len(), want_tl), replay);
                    return "undecodable";
                }
            }
            if p.exts != want || p.ptype != Some(c.ptype) || !lt_ok || k > c.pdu.len() || pkt[p.payload.clone()] != c.pdu[..k] || (ctx.is_none() && k != c.pdu.len()) {
                rep.violation("C13", format!("wire-decoding-differs:{}", cls), || format!("{} = {:?}: TS 102 606 reading of {} gives chain {:?}, type {:?}, {} payload bytes — not what was passed", desc(), st, hex_short(&pkt, 64), p.exts.iter().map(|e| format!("{:#06x}/{}", e.id, e.data.len())).collect::<Vec<_>>(), p.ptype, k), replay);
                return "undecodable";
            }
        }
        Err(m) => {
            rep.violation("C13", format!("wire-undecodable:{}", cls), || format!("{} = {:?}: emitted bytes {} do not parse ({:?})", desc(), st, hex_short(&pkt, 64), m), replay);
            return "undecodable";
        }
    }
    // a mandatory extension with more than 255 data bytes cannot be described to a real receiver
    // (MandatoryHeaderExt carries a u8): the sender side has been judged, stop here
    if c.chain.entries.iter().any(|e| e.id < 0x100 && e.data.len() > 255) {
        return "sender-only-ok";
    }
    // ---- complete the train
    let mut pkts = vec![pkt];
    let mut cx = ctx;
    let mut guard_n = 0;
    while let Some(cf) = cx {
        guard_n += 1;
        if guard_n > 300 {
            return "train-too-long";
        }
        let bl = 8 + rng.below(c.pdu.len() + 12);
        let mut b = vec![0u8; bl];
        match guard(|| enc.encap_frag(c.pdu, &cf, &mut b)) {
            Ok(Ok(EncapStatus::CompletedPkt(m))) if m as usize <= bl => {
                b.truncate(m as usize);
                pkts.push(b);
                cx = None;
            }
            Ok(Ok(EncapStatus::FragmentedPkt(m, c2))) if m as usize <= bl => {
                b.truncate(m as usize);
                pkts.push(b);
                cx = Some(c2);
            }
            Ok(Err(_)) => {}
            _ => return "continuation-misbehaved",
        }
    }
    // ---- real receiver knowing all mandatory ids: same ordered list, type, label, PDU
    let mut want_chain = c.chain.entries.clone();
    if c.ptype < 0x100 && !c.chain.final_ext {
        want_chain.push(ExtEntry { id: c.ptype, data: vec![] });
    }
    let np = pkts.len();
    for (i, p) in pkts.iter().enumerate() {
        rep.eval();
        let r = dec_guard(&mut dec, p);
        let last = i + 1 == np;
        let check_meta = |m: &dvb_gse_rust::gse_decap::DecapMetadata| -> Vec<String> {
            let mut bad = Vec::new();
            let got: Vec<ExtEntry> = m.extensions().iter().map(ext_to_entry).collect();
            if got != want_chain {
                bad.push(format!("extension list {:?} != passed {:?}", got.iter().map(|e| format!("{:#06x}/{}", e.id, crate::rng::hex(&e.data))).collect::<Vec<_>>(), want_chain.iter().map(|e| format!("{:#06x}/{}", e.id, crate::rng::hex(&e.data))).collect::<Vec<_>>()));
            }
            if m.protocol_type() != c.ptype {
                bad.push(format!("protocol type {:#06x} != {:#06x}", m.protocol_type(), c.ptype));
            }
            if m.label() != c.label && c.label != Label::ReUse {
                bad.push(format!("label {} != {}", label_str(&m.label()), label_str(&c.label)));
            }
            bad
        };
        let bad: Vec<String> = match &r {
            Ok(Ok((DecapStatus::FragmentedPkt(m), cons))) if !last => {
                let mut b = check_meta(m);
                if *cons != p.len() {
                    b.push(format!("consumed {} != {}", cons, p.len()));
                }
                b
            }
            Ok(Ok((DecapStatus::CompletedPkt(b, m), cons))) if last => {
                let mut v = check_meta(m);
                if m.pdu_len() != c.pdu.len() || b[..m.pdu_len().min(b.len())] != c.pdu[..] {
                    v.push(format!("PDU differs (delivered {} bytes)", m.pdu_len()));
                }
                if *cons != p.len() {
                    v.push(format!("consumed {} != {}", cons, p.len()));
                }
                v
            }
            other => vec![format!("packet {}/{} ({}) not accepted: {}", i + 1, np, hex_short(p, 40), dec_res_str(other))],
        };
        if !bad.is_empty() {
            rep.violation("C13", format!("receiver-roundtrip:{}:{}", if np > 1 { "fragmented" } else { "complete" }, cls), || format!("{} -> {} packets, storage {}B: {}", desc(), np, c.storage, bad.join("; ")), replay);
            return "roundtrip-failed";
        }
    }
    // ---- a receiver lacking one mandatory id drops the packet as a whole and walks on
    let mand_ids: Vec<u16> = want_chain.iter().filter(|e| e.id < 0x100).map(|e| e.id).collect();
    if !mand_ids.is_empty() {
        let missing = mand_ids[rng.below(mand_ids.len())];
        let mut t2 = table.clone();
        t2.t[missing as usize] = Mand::Unknown;
        let mut dec2 = plain_dec(2, c.storage, 2, c.storage, t2);
        if c.primed {
            let mut e2 = Encapsulator::new(DefaultCrc {});
            let mut b = [0u8; 32];
            if let Ok(Ok(EncapStatus::CompletedPkt(n))) = guard(|| e2.encap(b"", 0, meta_plain(c.label), &mut b)) {
                if let Ok(Ok((DecapStatus::CompletedPkt(bf, _), _))) = dec_guard(&mut dec2, &b[..n as usize]) {
                    let _ = dec2.provision_storage(bf);
                }
            }
        }
        // the packet followed by a plain complete packet in the same buffer
        let follow = crate::hostile::mk_complete(2, &[], 0x0800, b"");
        let mut frame = pkts[0].clone();
        frame.extend_from_slice(&follow);
        rep.eval();
        // the packet is dropped several times in a row (more often than the receiver has storage buffers):
        // each drop must leave the receiver as it was
        for _ in 0..3 {
            let r0 = dec_guard(&mut dec2, &frame);
            if !matches!(&r0, Ok(Err((_, cons))) if *cons == pkts[0].len()) {
                break;
            }
        }
        let r = dec_guard(&mut dec2, &frame);
        match &r {
            Ok(Err((_, cons))) if *cons == pkts[0].len() => {
                let r2 = dec_guard(&mut dec2, &frame[*cons..]);
                if !matches!(&r2, Ok(Ok((DecapStatus::CompletedPkt(_, m), k))) if m.pdu_len() == 0 && *k == follow.len()) {
                    rep.violation("C13", format!("walk-after-unknown-mandatory:{}", cls), || format!("{}: after dropping the packet with unknown mandatory extension {:#06x}, the next packet was not delivered: {}", desc(), missing, dec_res_str(&r2)), replay);
                }
                rep.count("c13.unknown-mandatory-dropped");
            }
            other => {
                rep.violation("C13", format!("unknown-mandatory-not-dropped:{}", cls), || format!("{}: receiver that does not know mandatory extension {:#06x} answered {} for {} (+{} following bytes); expected rejection consuming {}", desc(), missing, dec_res_str(other), hex_short(&pkts[0], 40), follow.len(), pkts[0].len()), replay);
            }
        }
    }
    // ---- the whole PDU is dropped even when an older, compatible train is open on the same fragment id: a first
    // fragment without the extension (same label, type, total length and payload: the CRC does not cover
    // extensions) is accepted first, then the train whose first fragment carries the unknown mandatory extension
    if np > 1 && !mand_ids.is_empty() {
        if let Ok(p0) = wire::parse(&pkts[0], &table) {
            if let (Some(pt), Some(tl)) = (p0.ptype, p0.total_len) {
                if pt >= 0x0600 {
                    let missing = mand_ids[0];
                    let mut t3 = table.clone();
                    t3.t[missing as usize] = Mand::Unknown;
                    let mut dec3 = plain_dec(2, c.storage, 2, c.storage, t3);
                    if c.primed {
                        let mut e2 = Encapsulator::new(DefaultCrc {});
                        let mut b = [0u8; 32];
                        if let Ok(Ok(EncapStatus::CompletedPkt(n))) = guard(|| e2.encap(b"", 0, meta_plain(c.label), &mut b)) {
                            if let Ok(Ok((DecapStatus::CompletedPkt(bf, _), _))) = dec_guard(&mut dec3, &b[..n as usize]) {
                                let _ = dec3.provision_storage(bf);
                            }
                        }
                    }
                    let older = crate::hostile::mk_first(p0.lt, &p0.label, p0.frag_id.unwrap_or(9), tl, pt, &pkts[0][p0.payload.clone()]);
                    rep.eval();
                    if matches!(dec_guard(&mut dec3, &older), Ok(Ok((DecapStatus::FragmentedPkt(_), _)))) {
                        rep.count("c13.older-train-opened");
                        for (i, p) in pkts.iter().enumerate() {
                            rep.eval();
                            let r = dec_guard(&mut dec3, p);
                            if let Ok(Ok((DecapStatus::CompletedPkt(_, m), _))) = &r {
                                rep.violation("C13", format!("unknown-mandatory:pdu-delivered-through-an-older-train:{}", cls), || format!("{}: receiver that does not know mandatory extension {:#06x} had an older train open on the same fragment id; packet {}/{} of the train with the unknown extension delivered a PDU of {} bytes with {} extensions", desc(), missing, i + 1, np, m.pdu_len(), m.extensions().len()), replay);
                                break;
                            }
                            if i == 0 && !matches!(&r, Ok(Err(_))) {
                                break;
                            }
                        }
                    }
                }
            }
        }
    }
    if np > 1 {
        "fragmented-ok"
    } else {
        "complete-ok"
    }
}

/// protocol types of the reserved range 0x0100..=0x05FF, biased to its two ends
fn reserved_ptype(rng: &mut Rng) -> u16 {
    match rng.below(4) {
        0 => 0x0100 + rng.below(3) as u16,
        1 => 0x05FF - rng.below(3) as u16,
        _ => rng.range(0x100, 0x5FF) as u16,
    }
}

fn meta_plain(l: Label) -> EncapMetadata {
    EncapMetadata::new(0x0800, l)
}

impl Property for Prop {
    fn id(&self) -> &'static str {
        "C13"
    }
    fn rule(&self) -> &'static str {
        "ctor: every extension id 0..=0xFFFF x data length 0..=10 (Ok <=> id < 0x0600 and (id < 0x0100 or length == H-LEN table), never a panic); small: seeded chains of 1..4 extensions, one in eight of 5..14 (every optional H-LEN class, known non-final mandatory extensions with 0..8 data bytes, optionally a final mandatory extension last with type == its id) x all label kinds (incl. re-use substituted) x PDUs of 0..=64 bytes x EVERY buffer size from 5 to the full packet length + 2 (fragmentation at every offset inside and after the extension area) x storage == PDU length or larger; large: lattice-sized PDUs and buffers; ptypes: every protocol type 0..=0x06FF through encap_ext with a one-element chain (reserved range refused, everything accepted decodable); illegal: type < 0x0100 with a non-matching / non-mandatory last extension, types 0x0100..0x05FF, final extension not matching the type (an error is expected; Ok is judged by decodability). Each Ok result is decoded by the independent parser and by the real receiver with an all-knowing manager, then by a receiver lacking one mandatory id (the packet is dropped repeatedly, the following packet is still delivered, and the whole PDU stays dropped even when an older compatible train is open on the same fragment id). One legal case in four is preceded, on the same encapsulator, by an encap_ext call with the same label that is refused (reserved protocol type / non-matching final mandatory extension): the refused call must not change how the next packet is encoded; one primed case in four is preceded by a broadcast packet sent through encap_ext and delivered to the receiver; one case in four is preceded by an accepted call with the same extension ids but mandatory data of other lengths. Non-trivial = a case that reached the receiver round trip; fingerprint = (chain shape, label, PDU length, buffer, storage)."
    }
    fn gens(&self, cx: &Cx) -> Vec<Gen> {
        vec![
            Gen { name: "ctor", count: 256, exhaustive: true },
            Gen { name: "small", count: cx.n(3_000, 150_000), exhaustive: false },
            Gen { name: "large", count: cx.n(4_000, 300_000), exhaustive: false },
            Gen { name: "illegal", count: cx.n(6_000, 300_000), exhaustive: false },
            Gen { name: "ptypes", count: 0x0700, exhaustive: true },
        ]
    }
    fn run_key(&self, cx: &Cx, gen: &str, key: u64, rep: &mut Report) {
        let replay_s = format!("gen={} key={} seed={} profile={}", gen, key, cx.seed, cx.profile);
        let replay = || replay_s.clone();
        let mut rng = Rng::derive(cx.seed, fnv(gen.as_bytes()), key);
        match gen {
            "ctor" => {
                let hl = [usize::MAX, 0, 2, 4, 6, 8];
                for lo in 0..256u64 {
                    if crate::expired() {
                        return;
                    }
                    let id = ((key << 8) | lo) as u16;
                    // data lengths 0..=10, and (for one id in sixteen) lengths around 256 and 512: a length that only
                    // matches the H-LEN table modulo 256 is as wrong as any other
                    let mut lens: Vec<usize> = (0..=10).collect();
                    if lo % 16 == 3 || id < 0x0600 && (id & 0xFF) == 0 {
                        lens.extend(250..=266);
                        lens.extend(506..=522);
                    }
                    for len in lens {
                        rep.eval();
                        let data = vec![0xA5u8; len];
                        let want_ok = id < 0x0600 && (id < 0x0100 || len == hl[(id >> 8) as usize]);
                        match guard(|| Extension::new(id, &data)) {
                            Err(p) => rep.violation("C13", format!("ctor-panic:{}", if id == 0x0600 { "id-0x0600" } else { "other" }), || format!("Extension::new({:#06x}, {} bytes) panicked: {}", id, len, p), &replay),
                            Ok(r) => {
                                if r.is_ok() != want_ok {
                                    let cls = if id >= 0x0600 { "accepts-id-ge-0x0600" } else if want_ok { "rejects-legal" } else { "accepts-wrong-length" };
                                    rep.violation("C13", format!("ctor:{}", cls), || format!("Extension::new({:#06x}, {} bytes) = {}, expected {}", id, len, if r.is_ok() { "Ok" } else { "Err" }, if want_ok { "Ok" } else { "Err" }), &replay);
                                } else if let Ok(e) = &r {
                                    let en = ext_to_entry(e);
                                    if en.id != id || en.data != data || e.len() != 2 + len {
                                        rep.violation("C13", "ctor:stored-fields".into(), || format!("Extension::new({:#06x}, {} bytes) stores id {:#06x}, {} data bytes, len() {}", id, len, en.id, en.data.len(), e.len()), &replay);
                                    }
                                    rep.nontrivial(((id as u64) << 8) | len as u64);
                                    rep.count("c13.ctor-ok");
                                } else {
                                    rep.count("c13.ctor-err");
                                }
                            }
                        }
                    }
                }
                if key == 1 {
                    rep.sample(|| "ctor: ids 0x0100..0x01ff x lengths 0..=10 -> Ok exactly for length 0".into());
                }
            }
            "ptypes" => {
                // every protocol type 0..=0x06FF with a one-element optional chain: Ok must be decodable, the
                // reserved range must be refused
                let ptype = key as u16;
                let chain = ExtSpec { entries: vec![ExtEntry { id: 0x0200 | (key as u16 & 0xFF), data: vec![0x11, 0x22] }], final_ext: false };
                let pdu = gen_pdu(&mut rng, 20, 0);
                for (label, bl) in [(Label::Broadcast, 64usize), (gen_label(&mut rng, 2), 20)] {
                    let c = Case { chain: &chain, ptype, label, primed: false, pdu: &pdu, buf_len: bl, storage: 20, legal: ptype >= 0x600, pre_fail: false, pre_same_ids: false };
                    let o = run_case(&c, &mut rng, rep, &replay);
                    rep.count(&format!("c13.ptypes.{}", o));
                    if (0x0100..0x0600).contains(&ptype) && o != "error" {
                        rep.violation("C13", "reserved-ptype-accepted".into(), || format!("encap_ext accepted protocol type {:#06x} ({})", ptype, o), &replay);
                    }
                    if o.ends_with("-ok") {
                        rep.nontrivial(mix(0x9797, (ptype as u64) << 8 | bl as u64));
                    }
                }
            }
            "small" | "large" | "illegal" => {
                // 1..4 extensions; one chain in eight is long (5..14 extensions)
                let n = if rng.chance(1, 8) { 5 + rng.below(10) } else { 1 + rng.below(4) };
                let final_ext = rng.chance(1, 3);
                let chain = gen_chain(&mut rng, n, final_ext);
                let lcase = rng.below(7);
                let (label, primed) = match lcase {
                    0 => (gen_label(&mut rng, 0), false),
                    1 => (gen_label(&mut rng, 2), false),
                    2 => (Label::Broadcast, false),
                    3 => (gen_label(&mut rng, 1), true),
                    4 => (gen_label(&mut rng, 3), true),
                    5 => (gen_label(&mut rng, 3), false),
                    _ => (gen_label(&mut rng, 0), false),
                };
                let mut legal = true;
                let ptype = if gen == "illegal" {
                    legal = false;
                    if final_ext {
                        // final mandatory extension whose id is not the protocol type
                        match rng.below(3) {
                            0 => chain.entries.last().unwrap().id ^ (1 + rng.below(255) as u16),
                            1 => reserved_ptype(&mut rng),
                            _ => gen_user_ptype(&mut rng),
                        }
                    } else {
                        match rng.below(3) {
                            0 => rng.below(0x100) as u16,
                            1 => reserved_ptype(&mut rng),
                            _ => {
                                // type below 0x100 equal to a NON-final mandatory id of the chain / arbitrary
                                chain.entries.iter().find(|e| e.id < 0x100).map(|e| e.id).unwrap_or(0x0081)
                            }
                        }
                    }
                } else if final_ext {
                    chain.entries.last().unwrap().id
                } else {
                    gen_user_ptype(&mut rng)
                };
                // a type below 0x0100 equal to the id of a mandatory LAST extension is the legal final case
                let chain = chain.normalised(ptype);
                let final_ext = chain.final_ext;
                if !legal && final_ext && chain.entries.last().map(|e| e.id) == Some(ptype) {
                    legal = true;
                }
                if !legal && final_ext && ptype >= 0x600 {
                    // a chain whose last element the receiver's table calls final while the sender's type is >= 0x0600:
                    // a configuration mismatch, not judged (DESIGN §5 C13)
                    return;
                }
                let hdr = 2 + 3 + 2 + label_bytes(&label).len() + wire::chain_extra_len(&chain.entries, final_ext && legal) + 2;
                if gen == "small" {
                    let plen = rng.below(65);
                    let pdu = gen_pdu(&mut rng, plen, 0);
                    let full = hdr + plen + 2;
                    // every buffer size for ordinary chains; a sample around both ends when a chain carries a
                    // very large mandatory data block
                    let sizes: Vec<usize> = if full <= 700 {
                        (5..=full).collect()
                    } else {
                        let mut v: Vec<usize> = (5..70).collect();
                        v.extend(full.saturating_sub(45)..=full);
                        v.extend([4095usize, 4096, 4097, 4098, 65535, 65536]);
                        v
                    };
                    for bl in sizes {
                        if crate::expired() {
                            return;
                        }
                        let storage = if (bl + plen) % 2 == 0 { plen } else { plen + 1 + rng.below(40) };
                        let c = Case { chain: &chain, ptype, label, primed, pdu: &pdu, buf_len: bl, storage, legal, pre_fail: legal && bl % 4 == 1, pre_same_ids: bl % 4 == 2 };
                        let o = run_case(&c, &mut rng, rep, &replay);
                        rep.count(&format!("c13.{}", o));
                        if o.ends_with("-ok") {
                            rep.nontrivial(mix(mix(key, bl as u64), mix(plen as u64, storage as u64)));
                        }
                    }
                    if key < 2 {
                        rep.sample(|| format!("small: chain {} type {:#06x} label {} pdu {}B, every buffer size 5..={} -> complete / fragmented round trips recover the chain", chain_str(&chain), ptype, label_str(&label), plen, full));
                    }
                } else {
                    let plen = match rng.below(if legal { 6 } else { 5 }) {
                        5 => 65533usize.saturating_sub(label_bytes(&label).len()) + rng.below(6) - 2,
                        0 => rng.range(4000, 4100),
                        1 => rng.range(0, 3),
                        2 => rng.range(4100, 9000),
                        _ => rng.range(1, 400),
                    };
                    let pdu = gen_pdu(&mut rng, plen, 0);
                    let bl = match rng.below(5) {
                        0 => hdr + plen,
                        1 => 4097 + rng.below(3),
                        2 => rng.below(hdr + 4),
                        3 => hdr + rng.below(plen + 1),
                        _ => rng.below(hdr + plen + 40),
                    };
                    let storage = if rng.chance(1, 2) { plen } else { plen + rng.below(100) };
                    let pre_fail = legal && rng.chance(1, 4);
                    let pre_same_ids = rng.chance(1, 4);
                    let c = Case { chain: &chain, ptype, label, primed, pdu: &pdu, buf_len: bl, storage, legal, pre_fail, pre_same_ids };
                    let o = run_case(&c, &mut rng, rep, &replay);
                    rep.count(&format!("c13.{}.{}", gen, o));
                    if o.ends_with("-ok") {
                        rep.nontrivial(mix(mix(key, bl as u64), mix(plen as u64, storage as u64)));
                    }
                    if key < 1 && gen == "illegal" {
                        rep.sample(|| format!("illegal: chain {} with type {:#06x} -> {}", chain_str(&chain), ptype, o));
                    }
                }
            }
            _ => {}
        }
    }
    fn floors(&self, _cx: &Cx, rep: &mut Report) {
        for k in ["c13.ctor-ok", "c13.ctor-err", "c13.complete-ok", "c13.fragmented-ok", "c13.unknown-mandatory-dropped", "c13.illegal.error"] {
            if rep.get(k) == 0 {
                rep.floors_missing.push(format!("C13 floor: counter {} is 0", k));
            }
        }
    }
}
