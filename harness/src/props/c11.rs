//! C11 — see sendwl.rs (shared sender-side workload) and sender.rs (oracles).
use super::sendwl;
use crate::report::Report;
use crate::sender::*;
use crate::{Cx, Gen, Property};

pub struct Prop;
pub static P: Prop = Prop;

impl Property for Prop {
    fn id(&self) -> &'static str {
        "C11"
    }
    fn rule(&self) -> &'static str {
        concat!("a call is non-trivial for C11 when it returned Ok for a first fragment or a continuation (context advance and payload slice are judged); a continuation on a valid context into a buffer of fewer than 7 bytes must be REJECTED (Err), a panic is a violation. Generators: ", "see coverage.generators")
    }
    fn gens(&self, cx: &Cx) -> Vec<Gen> {
        sendwl::gens(cx)
    }
    fn run_key(&self, cx: &Cx, gen: &str, key: u64, rep: &mut Report) {
        // C06's own workload also evaluates the other sender oracles (reported as observations only)
        sendwl::run_key(cx, O_C11 | if "C11" == "C18" { 0 } else { O_C06 | O_C11 }, gen, key, rep)
    }
    fn floors(&self, _cx: &Cx, rep: &mut Report) {
        for k in "c06.parsed.first,runs.completed,lattice.trains-completed".split(',') {
            if rep.get(k) == 0 {
                rep.floors_missing.push(format!("C11 floor: counter {} is 0", k));
            }
        }
        rep.notes.push(sendwl::RULE.to_string());
    }
}
