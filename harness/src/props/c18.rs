//! C18 — see sendwl.rs (shared sender-side workload) and sender.rs (oracles).
use super::sendwl;
use crate::report::Report;
use crate::sender::*;
use crate::{Cx, Gen, Property};

pub struct Prop;
pub static P: Prop = Prop;

impl Property for Prop {
    fn id(&self) -> &'static str {
        "C18"
    }
    fn rule(&self) -> &'static str {
        concat!("a call is non-trivial for C18 when preview and real call were both executed and compared. Generators: ", "see coverage.generators")
    }
    fn gens(&self, cx: &Cx) -> Vec<Gen> {
        sendwl::gens(cx)
    }
    fn run_key(&self, cx: &Cx, gen: &str, key: u64, rep: &mut Report) {
        // C06's own workload also evaluates the other sender oracles (reported as observations only)
        sendwl::run_key(cx, O_C18 | if "C18" == "C18" { 0 } else { O_C06 | O_C11 }, gen, key, rep)
    }
    fn floors(&self, _cx: &Cx, rep: &mut Report) {
        for k in "c18.both-ok,c18.both-err".split(',') {
            if rep.get(k) == 0 {
                rep.floors_missing.push(format!("C18 floor: counter {} is 0", k));
            }
        }
        rep.notes.push(sendwl::RULE.to_string());
    }
}
