//! C15 — label re-use policy bounds (sender-only trace automaton, see labelops.rs).

use super::labelops::*;
use crate::report::Report;
use crate::rng::{fnv, mix, Rng};
use crate::{Cx, Gen, Property};

pub struct Prop;
pub static P: Prop = Prop;

fn depth(cx: &Cx) -> usize {
    if cx.quick() {
        4
    } else {
        5
    }
}

fn run_history(h: &[Op], rep: &mut Report, replay: &dyn Fn() -> String) -> (u64, u64) {
    let mut ex = Exec::new(false);
    for (i, op) in h.iter().enumerate() {
        let hs = || hist_str(&h[..=i]);
        if !ex.step(op, M_C15, &hs, rep, replay) {
            break;
        }
    }
    (ex.emitted_packets, ex.substitutions)
}

impl Property for Prop {
    fn id(&self) -> &'static str {
        "C15"
    }
    fn rule(&self) -> &'static str {
        "exhaustive: every history of the given depth (quick 4, thorough 5) over a 39-operation alphabet: encap succeeding / failing (buffer too small) and encap_ext succeeding for labels {A6, B6, C3, D3(zero 3-byte), broadcast, explicit re-use}, fragmenting encap for A6 and C3, start packets into a buffer of exactly the header size (B6, broadcast), PDU-too-long failures of encap and encap_ext (65536 bytes, and too long only because of the label), encap_ext with a wrong final mandatory extension, signalling protocol types through plain encap, a 6-byte label numerically equal to the 3-byte one, a 6-byte label sharing its first three bytes with another, a signalling PDU through encap_ext (labels are compared by kind and bytes, never through the crate's own equality), reset, disable, enable, enable_max(0/1/2/255), the accessor calls set_crc_calculator (an equal calculator) / get_crc_calculator / is_enabled_re_use_label (they must not touch the policy); key = first two operations. random: seeded histories of 300..3000 operations with max-consecutive N in 1..=255 (saturation at 255 exercised by runs of 600 identical labels). The trace automaton reads the label-type bits of every emitted start/complete packet; a run of substituted packets is ended only by an emitted packet carrying a full or broadcast label (not by configuration calls, not by explicit re-use labels, which are not counted either). A history is non-trivial when at least one re-use substitution was observed in it; fingerprint = hash of the operation sequence."
    }
    fn gens(&self, cx: &Cx) -> Vec<Gen> {
        let a = alphabet_c15().len() as u64;
        vec![Gen { name: "exhaustive", count: a * a, exhaustive: true }, Gen { name: "random", count: cx.n(1_500, 60_000), exhaustive: false }, Gen { name: "saturation", count: 255, exhaustive: true }]
    }
    fn run_key(&self, cx: &Cx, gen: &str, key: u64, rep: &mut Report) {
        let replay_s = format!("gen={} key={} seed={} profile={}", gen, key, cx.seed, cx.profile);
        let replay = || replay_s.clone();
        let alpha = alphabet_c15();
        let a = alpha.len();
        match gen {
            "exhaustive" => {
                let d = depth(cx);
                let mut h: Vec<Op> = vec![alpha[(key as usize) / a], alpha[(key as usize) % a]];
                let rest = d - 2;
                let total = a.pow(rest as u32);
                for idx in 0..total {
                    if idx % 64 == 0 && crate::expired() {
                        return;
                    }
                    h.truncate(2);
                    let mut x = idx;
                    for _ in 0..rest {
                        h.push(alpha[x % a]);
                        x /= a;
                    }
                    let (em, sub) = run_history(&h, rep, &replay);
                    rep.count_n("c15.emitted", em);
                    rep.count_n("c15.substitutions", sub);
                    if sub > 0 {
                        rep.nontrivial(mix(key, idx as u64));
                    }
                    if sub >= 2 && idx % 997 == 0 {
                        rep.sample(|| format!("exhaustive: [{}] -> {} packets emitted, {} substitutions, all within policy", hist_str(&h), em, sub));
                    }
                }
                rep.count_n("c15.histories", total as u64);
            }
            "random" => {
                let mut rng = Rng::derive(cx.seed, fnv(gen.as_bytes()), key);
                let n = 300 + rng.below(2700);
                let mut h = Vec::with_capacity(n);
                let sticky = rng.below(6) as u8;
                for _ in 0..n {
                    // long runs of one label exercise the max-consecutive counter
                    if rng.chance(1, 12) {
                        // explicit re-use label passed by the caller in the middle of a run
                        h.push(Op::Enc { label: 5, outcome: Outcome::Fits, ext: rng.chance(1, 8) });
                    } else if rng.chance(2, 3) {
                        let outcome = match rng.below(24) {
                            0 => Outcome::TooSmall,
                            1 => Outcome::TooLong,
                            2 => Outcome::BadPtype,
                            3 => Outcome::HeaderOnly,
                            _ => Outcome::Fits,
                        };
                        h.push(Op::Enc { label: sticky, outcome, ext: rng.chance(1, 5) });
                    } else {
                        let mut op = random_op(&mut rng, false);
                        if let Op::EnableMax(_) = op {
                            // small maxima half of the time: runs are then cut inside the sticky stretches
                            op = Op::EnableMax(if rng.chance(1, 2) { 1 + rng.below(4) as u8 } else { 1 + rng.below(255) as u8 });
                        }
                        h.push(op);
                    }
                }
                let (em, sub) = run_history(&h, rep, &replay);
                rep.count_n("c15.emitted", em);
                rep.count_n("c15.substitutions", sub);
                rep.count("c15.histories");
                if sub > 0 {
                    rep.nontrivial(mix(0xC15, fnv(hist_str(&h).as_bytes())));
                }
                if key == 0 {
                    rep.sample(|| format!("random: {} operations starting [{}] -> {} packets, {} substitutions", n, hist_str(&h[..6]), em, sub));
                }
            }
            "saturation" => {
                // enable_max(N) followed by 600 packets with the same label: never more than N in a row
                let n = (key + 1) as u8;
                let mut h = vec![Op::EnableMax(n)];
                for _ in 0..600 {
                    h.push(Op::Enc { label: 0, outcome: Outcome::Fits, ext: false });
                }
                let (em, sub) = run_history(&h, rep, &replay);
                rep.count_n("c15.emitted", em);
                rep.count_n("c15.substitutions", sub);
                rep.count("c15.histories");
                if sub > 0 {
                    rep.nontrivial(mix(0x5A7, key));
                }
            }
            _ => {}
        }
    }
    fn floors(&self, _cx: &Cx, rep: &mut Report) {
        if rep.get("c15.substitutions") == 0 {
            rep.floors_missing.push("C15 floor: no re-use substitution observed".into());
        }
    }
}
