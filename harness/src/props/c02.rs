//! C02 — fragmented round trip for every PDU and every buffer-size schedule.

use crate::report::Report;
use crate::rng::{fnv, mix, Rng};
use crate::sender::*;
use crate::util::*;
use crate::wire::MandTable;
use crate::{Cx, Gen, Property};
use dvb_gse_rust::gse_decap::DecapStatus;
use dvb_gse_rust::gse_encap::EncapError;
use dvb_gse_rust::label::Label;

pub struct Prop;
pub static P: Prop = Prop;

const SCHEDULES: usize = 16;

fn sched_size(kind: usize, rng: &mut Rng, i: usize, remaining: usize) -> usize {
    match kind {
        0 => 13,
        1 => 14,
        2 => 20,
        3 => 100,
        4 => 4096,
        5 => 4097,
        6 => 4098,
        7 => 5000,
        8 => 70000,
        // random mix including tiny buffers
        9 => match rng.below(4) {
            0 => rng.below(13),
            1 => 13 + rng.below(50),
            2 => rng.below(5000),
            _ => rng.below(70001),
        },
        // payload fits but the CRC does not
        10 => {
            if rng.chance(1, 2) {
                remaining + 3 + rng.below(4)
            } else {
                13 + rng.below(200)
            }
        }
        // land exactly on the PDU end (payload only), then tiny buffers, then a real one
        11 => {
            if remaining == 0 {
                if rng.chance(2, 3) {
                    rng.below(13)
                } else {
                    7 + rng.below(20)
                }
            } else if rng.chance(1, 3) {
                remaining + 3
            } else {
                13 + rng.below(300)
            }
        }
        // 14/15: the first buffer is k bytes too short for a complete packet (handled by the caller),
        // continuations: exact end packet / a few bytes around it
        14 => remaining + 7,
        15 => remaining + 7 + rng.below(3) - 1,
        // descending ramp
        12 => 3 + (600 - (i * 37) % 600),
        // ascending ramp
        _ => 5 + (i * 11) % 700,
    }
}

impl Property for Prop {
    fn id(&self) -> &'static str {
        "C02"
    }
    fn rule(&self) -> &'static str {
        "trains: key -> seeded (PDU length from the size lattice / ranges up to 65533 - label, content class, label case incl. substituted first fragment, frag id 0..=255, protocol type >= 0x0600, one of 16 buffer-size schedules: constant 13/14/20/100/4096/4097/4098/5000/70000, random mix with tiny buffers, payload-fits-but-CRC-does-not, land-on-PDU-end-then-tiny, descending ramp, ascending ramp, first buffer 1..8 bytes short of the complete packet followed by exact-fit end buffers; receiver storage == PDU length, 65535 / 65536 / 65537, multiples of 65536, or 70000). longrun: one encapsulator / decapsulator pair carries 600 fragmented PDUs with one label under re-use limits 255 / 254 / 2 / unlimited. Three trains in eight have the receiver's label memory emptied between two of their fragments (reset_last_label, padding, a broadcast packet of another stream). One train in four is preceded by a refused encap_ext call with its label on the same encapsulator; one in four meets a receiver on which a PDU of the same fragment id was abandoned and whose free list was then topped up to full. batch: the sender works ahead of the receiver: 2..4 PDUs of the same size, label and protocol type are fragmented one after the other from ONE buffer refilled in place (re-use on or off, same or consecutive fragment ids), then all packets are decapsulated in order. Every encap/encap_frag call and every decap call is an evaluation. A train is non-trivial when it was fragmented (>= 2 packets), completed, and the receiver delivered; fingerprint = (PDU length, schedule, label case, frag id, number of packets)."
    }
    fn gens(&self, cx: &Cx) -> Vec<Gen> {
        vec![Gen { name: "trains", count: cx.n(30_000, 2_000_000), exhaustive: false }, Gen { name: "lengths", count: 65534, exhaustive: true }, Gen { name: "batch", count: cx.n(4_000, 300_000), exhaustive: false }, Gen { name: "longrun", count: 12, exhaustive: true }]
    }
    fn run_key(&self, cx: &Cx, gen: &str, key: u64, rep: &mut Report) {
        let replay_s = format!("gen={} key={} seed={} profile={}", gen, key, cx.seed, cx.profile);
        let replay = || replay_s.clone();
        let mut rng = Rng::derive(cx.seed, fnv(gen.as_bytes()), key);
        if gen == "longrun" {
            // one long-lived encapsulator / decapsulator pair: 600 fragmented PDUs with ONE label under the re-use
            // limits 255, 254, 2 and unlimited (key % 4), label kinds 6-byte / 3-byte / 3-byte zero (key / 4)
            use dvb_gse_rust::crc::DefaultCrc;
            use dvb_gse_rust::gse_encap::{EncapMetadata, EncapStatus, Encapsulator};
            let limit = [255u8, 254, 2, 0][(key % 4) as usize];
            let label = gen_label(&mut rng, [0usize, 2, 3][(key / 4) as usize]);
            let mut enc = Encapsulator::new(DefaultCrc {});
            if limit > 0 {
                enc.enable_re_use_label_with_max_consecutive(limit);
            }
            let mut dec = plain_dec(2, 64, 2, 64, MandTable::none());
            for n in 0..600usize {
                let plen = 20 + n % 30;
                let pdu = rng.bytes(plen);
                let mut ctx = None;
                for step in 0..20 {
                    let mut b = vec![0u8; 24];
                    rep.eval();
                    let r = match ctx {
                        None => crate::mon::guard(|| enc.encap(&pdu, (n % 256) as u8, EncapMetadata::new(0x0800, label), &mut b)),
                        Some(c) => crate::mon::guard(|| enc.encap_frag(&pdu, &c, &mut b)),
                    };
                    let (nb, c2, done) = match r {
                        Ok(Ok(EncapStatus::CompletedPkt(k))) => (k as usize, None, true),
                        Ok(Ok(EncapStatus::FragmentedPkt(k, c))) => (k as usize, Some(c), false),
                        other => {
                            rep.violation("C02", "longrun:sender".into(), || format!("PDU {} of a run with one label (re-use limit {}): call {} = {:?}", n + 1, limit, step, other.map(|x| x.map(|s| format!("{:?}", s)))), &replay);
                            return;
                        }
                    };
                    let d = dec_guard(&mut dec, &b[..nb.min(b.len())]);
                    let ok = match &d {
                        Ok(Ok((DecapStatus::CompletedPkt(buf, m), c))) if done => *c == nb && m.pdu_len() == plen && buf[..plen] == pdu[..] && m.label() == label,
                        Ok(Ok((DecapStatus::FragmentedPkt(m), c))) if !done => *c == nb && m.label() == label,
                        _ => false,
                    };
                    if !ok {
                        rep.violation("C02", "longrun:receiver".into(), || format!("PDU {} of a run with one label {} (re-use limit {}): packet {} -> {}", n + 1, label_str(&label), limit, step, dec_res_str(&d)), &replay);
                        return;
                    }
                    if let Ok(Ok((DecapStatus::CompletedPkt(bf, _), _))) = d {
                        let _ = dec.provision_storage(bf);
                    }
                    ctx = c2;
                    if done {
                        break;
                    }
                }
            }
            rep.count("longrun.ok");
            rep.nontrivial(mix(0x10A6_B, key));
            return;
        }
        if gen == "batch" {
            // the sender works ahead of the receiver: 2..4 PDUs of the same size, label and type are fragmented one
            // after the other from ONE buffer that is refilled in place, and only then are the packets decapsulated
            use dvb_gse_rust::crc::DefaultCrc;
            use dvb_gse_rust::gse_encap::{EncapMetadata, EncapStatus, Encapsulator};
            let n_pdus = 2 + rng.below(3);
            let plen = match rng.below(4) {
                0 => rng.range(1, 40),
                1 => rng.range(4090, 4200),
                _ => rng.range(40, 1500),
            };
            let lk = rng.below(4);
            let label = gen_label(&mut rng, [0usize, 2, 4, 1][lk]);
            let ptype = gen_user_ptype(&mut rng);
            let same_id = rng.chance(1, 2);
            let id0 = rng.byte();
            let mut enc = Encapsulator::new(DefaultCrc {});
            let reuse = rng.chance(1, 2);
            if !reuse {
                enc.disable_re_use_label();
            }
            let mut pdu = vec![0u8; plen];
            let mut copies: Vec<Vec<u8>> = Vec::new();
            let mut pkts: Vec<(usize, bool, Vec<u8>)> = Vec::new();
            for j in 0..n_pdus {
                rng.fill(&mut pdu);
                copies.push(pdu.clone());
                let fid = if same_id { id0 } else { id0.wrapping_add(j as u8) };
                let mut ctx = None;
                for step in 0..400 {
                    let bl = if step == 0 { 13 + rng.below(plen + 4) } else { 13 + rng.below(600) };
                    let mut b = vec![0u8; bl];
                    rep.eval();
                    let r = match ctx {
                        None => crate::mon::guard(|| enc.encap(&pdu, fid, EncapMetadata::new(ptype, label), &mut b)),
                        Some(c) => crate::mon::guard(|| enc.encap_frag(&pdu, &c, &mut b)),
                    };
                    match r {
                        Ok(Ok(EncapStatus::CompletedPkt(n))) if (n as usize) <= bl => {
                            b.truncate(n as usize);
                            pkts.push((j, true, b));
                            ctx = None;
                            break;
                        }
                        Ok(Ok(EncapStatus::FragmentedPkt(n, c))) if (n as usize) <= bl => {
                            b.truncate(n as usize);
                            pkts.push((j, false, b));
                            ctx = Some(c);
                        }
                        Ok(Err(_)) => {}
                        _ => {
                            rep.count("batch.sender-misbehaved");
                            return;
                        }
                    }
                }
                if ctx.is_some() {
                    rep.count("batch.train-not-finished");
                    return;
                }
            }
            let mut dec = plain_dec(1 + rng.below(4), plen, 2, plen, MandTable::none());
            let mut fragmented = 0;
            let keep_delivered = rng.chance(1, 2);
            let mut held: Vec<Box<[u8]>> = Vec::new();
            for (j, last, p) in &pkts {
                rep.eval();
                let d = dec_guard(&mut dec, p);
                match &d {
                    Ok(Ok((DecapStatus::CompletedPkt(buf, m), c))) if *last => {
                        if *c != p.len() || m.pdu_len() != plen || buf[..plen] != copies[*j][..] || m.label() != label || m.protocol_type() != ptype {
                            rep.violation("C02", "batch:delivered-pdu-differs".into(), || format!("sender ahead of the receiver, PDU {} of {} ({}B, label {}, re-use {}): delivered {} bytes / label {} / type {:#06x}", j + 1, n_pdus, plen, label_str(&label), reuse, m.pdu_len(), label_str(&m.label()), m.protocol_type()), &replay);
                            return;
                        }
                    }
                    Ok(Ok((DecapStatus::FragmentedPkt(_), c))) if !*last && *c == p.len() => {
                        fragmented += 1;
                    }
                    other => {
                        rep.violation("C02", format!("batch:packet-not-accepted:{}", if *last { "final" } else { "fragment" }), || format!("sender ahead of the receiver ({} PDUs of {}B from one buffer refilled in place, label {}, re-use {}): packet of PDU {} ({} bytes, final {}) -> {}", n_pdus, plen, label_str(&label), reuse, j + 1, p.len(), last, dec_res_str(other)), &replay);
                        return;
                    }
                }
                if let Ok(Ok((DecapStatus::CompletedPkt(b, _), _))) = d {
                    // the application keeps what it received and provisions a new buffer (so that consecutive PDUs do
                    // not live at the same address on the receiving side), or hands the buffer straight back
                    if keep_delivered {
                        held.push(b);
                        let _ = dec.provision_storage(vec![0u8; plen].into_boxed_slice());
                    } else {
                        let _ = dec.provision_storage(b);
                    }
                }
            }
            rep.count("batch.ok");
            if fragmented > 0 {
                rep.nontrivial(mix(0xBA7C, mix(key, plen as u64)));
            }
            return;
        }
        let lat = size_lattice();
        let case = rng.below(6);
        // 0 6B, 1 3B, 2 bcast, 3 6B substituted, 4 3B substituted, 5 3B zero
        let (label, primed) = match case {
            0 => (gen_label(&mut rng, 0), false),
            1 => (gen_label(&mut rng, 2), false),
            2 => (Label::Broadcast, false),
            3 => (gen_label(&mut rng, 1), true),
            4 => (gen_label(&mut rng, 2), true),
            _ => (gen_label(&mut rng, 3), false),
        };
        let ll = label_bytes(&label).len();
        // the limit is on PDU + protocol type + label AS WRITTEN: a substituted (re-use) label is not counted
        // (after a configuration detour the label memory is empty again: the label is written in full)
        let detour = primed && rng.chance(1, 4);
        let max_plen = 65533 - if primed && !detour { 0 } else { ll };
        let (plen, sched) = if gen == "lengths" {
            // every PDU length once (quick: a stride through them), large buffers so that the
            // work per length stays bounded
            if cx.quick() && key % 16 != (cx.seed % 16) && !(4080..4110).contains(&key) && key < 65500 {
                return;
            }
            (std::cmp::min(key as usize, max_plen), [5usize, 6, 8, 9][rng.below(4)])
        } else {
            let sched = (key % SCHEDULES as u64) as usize;
            let plen = match rng.below(8) {
                0 => std::cmp::min(lat[rng.below(lat.len())], max_plen),
                1 => rng.range(max_plen - 20, max_plen),
                2 => rng.range(4080, 4100),
                3 => rng.range(0, 30),
                4 => rng.range(0, max_plen),
                _ => rng.range(0, 3000),
            };
            // small constant buffers on huge PDUs would only repeat the same step thousands of times
            let plen = if sched <= 2 || sched == 13 || sched == 12 { plen % 6000 } else { plen };
            (plen, sched)
        };
        let pdu = gen_pdu(&mut rng, plen, (key % 5) as usize);
        // all fragment ids; one in eight from the ends of the range
        let frag_id = if rng.chance(1, 8) { [0u8, 255, 254, 1, 128, 127][rng.below(6)] } else { rng.byte() };
        let ptype = gen_user_ptype(&mut rng);
        // "sufficient storage": exactly the PDU, or boxes around the 16-bit boundary and far above it
        let storage = match rng.below(8) {
            0..=2 => plen,
            3 => plen.max(65535),
            4 => 65536,
            5 => 65537,
            6 => [131072usize, 65536 + plen, 196608][rng.below(3)],
            _ => 70000,
        };
        let mut s = Sender::new(0x21);
        // memories of 1..3 slots, or one slot per fragment id (256) / one less (255)
        let rx_slots = match rng.below(6) {
            0 => 256,
            1 => 255,
            _ => 1 + rng.below(3),
        };
        let mut dec = plain_dec(rx_slots, storage, 2, storage, MandTable::none());
        let cls = format!("sched{}:{}", sched, ["6B", "3B", "bcast", "6Bsub", "3Bsub", "3Bzero"][case]);
        if !primed && rng.chance(1, 4) {
            // the same encapsulator first refuses an encap_ext call with this label (buffer too small for the
            // extension): the refused call must not change how the train is encoded
            let mut tiny = vec![0u8; 4 + ll + rng.below(4)];
            let e = vec![dvb_gse_rust::header_extension::Extension::new(0x0233, &[1, 2]).unwrap()];
            let r = crate::mon::guard(|| s.enc.encap_ext(&pdu, frag_id, dvb_gse_rust::gse_encap::EncapMetadata::new(ptype, label), &mut tiny, e));
            if matches!(r, Ok(Err(_))) {
                rep.count("trains.refused-encap_ext-before");
            }
        }
        if rng.chance(1, 4) && storage < 200_000 {
            // receiver side: a PDU on the same fragment id was started and never finished, and the application has
            // topped the free list up to full in the meantime ("sufficient storage" is there)
            let junk = crate::hostile::mk_first(2, &[], frag_id, 50, 0x0800, &[1, 2, 3][..3.min(storage)]);
            if matches!(dec_guard(&mut dec, &junk), Ok(Ok((DecapStatus::FragmentedPkt(_), _)))) {
                for _ in 0..8 {
                    if dec.provision_storage(vec![0u8; storage].into_boxed_slice()).is_err() {
                        break;
                    }
                }
                rep.count("trains.abandoned-train-and-full-free-list-before");
            }
        }
        if primed {
            // the priming history: a packet with the same label; one time in four followed by
            // disable / a packet with ANOTHER label / re-enable (with or without a limit), after which the
            // train's label must be written in full again
            let other = if detour { Some(gen_label(&mut rng, 0)) } else { None };
            let steps: Vec<Label> = match other {
                Some(o) => vec![label, o],
                None => vec![label],
            };
            for (si, l) in steps.iter().enumerate() {
                if si == 1 {
                    s.enc.disable_re_use_label();
                }
                let spec = CallSpec { func: Func::Encap, pdu: b"", frag_id: 0, ptype: 0x0800, label: *l, exts: None, ctx: None, buf_len: 32 };
                let o = s.call(&spec, 0, rep, &replay);
                if !o.completed() {
                    rep.count("trains.prime-failed");
                    return;
                }
                match dec_guard(&mut dec, s.emitted(&o)) {
                    Ok(Ok((DecapStatus::CompletedPkt(b, _), _))) => {
                        give_back(&mut dec, b);
                    }
                    _ => {
                        rep.count("trains.prime-rejected");
                        return;
                    }
                }
            }
            if detour {
                match rng.below(3) {
                    0 => s.enc.enable_re_use_label(),
                    1 => s.enc.enable_re_use_label_with_max_consecutive(0),
                    _ => s.enc.enable_re_use_label_with_max_consecutive(1 + rng.below(255) as u8),
                }
                rep.count("trains.primed-with-config-detour");
            }
        }
        let mut ctx = None;
        let mut npk = 0usize;
        let mut calls = 0usize;
        let mut useful_after_first = 0usize; // buffers >= 13 offered after the first fragment
        let mut remaining_after_first = 0usize;
        let mut delivered = false;
        let max_calls = 40_000;
        loop {
            calls += 1;
            if calls % 64 == 0 && crate::expired() {
                return;
            }
            if calls > max_calls {
                rep.count("trains.call-cap-reached");
                break;
            }
            let remaining = plen - ctx.map(|c: dvb_gse_rust::gse_encap::ContextFrag| c.len_pdu_frag() as usize).unwrap_or(0);
            let mut b = sched_size(sched, &mut rng, calls - 1, remaining);
            if ctx.is_none() && sched >= 14 && calls == 1 {
                // one of: 1..=8 bytes short of the complete packet (label as written)
                let written = if primed && !detour { 0 } else { ll };
                let exact = 4 + written + plen;
                b = exact.saturating_sub(1 + (key as usize / SCHEDULES) % 8).max(13);
            }
            let spec = match ctx {
                None => CallSpec { func: Func::Encap, pdu: &pdu, frag_id, ptype, label, exts: None, ctx: None, buf_len: b },
                Some(c) => CallSpec { func: Func::Frag, pdu: &pdu, frag_id, ptype, label, exts: None, ctx: Some(c), buf_len: b },
            };
            let o = s.call(&spec, 0, rep, &replay);
            match &o.res {
                Err(p) => {
                    rep.violation("C02", format!("sender-panic:{}", cls), || format!("{} panicked with buffer {}B, pdu {}B, remaining {}: {}", spec.func.name(), b, plen, remaining, p), &replay);
                    return;
                }
                Ok(Err(e)) => {
                    if *e != EncapError::ErrorSizeBuffer {
                        rep.violation("C02", format!("sender-unexpected-error:{}", cls), || format!("{} returned {:?} for a valid PDU of {} bytes (buffer {}B, remaining {})", spec.func.name(), e, plen, b, remaining), &replay);
                        return;
                    }
                    if b >= 13 {
                        rep.violation("C02", format!("buffer-of-13-or-more-rejected:{}", cls), || format!("{} rejected a {}-byte buffer (pdu {}B, remaining {}, first call: {})", spec.func.name(), b, plen, remaining, ctx.is_none()), &replay);
                        return;
                    }
                    rep.count("trains.buffer-skipped");
                    continue;
                }
                Ok(Ok(_)) => {}
            }
            if o.n == 0 {
                rep.count("trains.bad-reported-length");
                return; // C06's clause
            }
            npk += 1;
            if ctx.is_some() && b >= 13 {
                useful_after_first += 1;
                if !o.completed() && o.payload_len == 0 {
                    rep.violation("C02", format!("no-progress-with-buffer-of-13-or-more:{}", cls), || format!("encap_frag accepted a {}-byte buffer but carried no payload and did not complete (remaining {})", b, remaining), &replay);
                    return;
                }
            }
            // receiver
            let pkt = s.emitted(&o).to_vec();
            let d = dec_guard(&mut dec, &pkt);
            if o.completed() {
                match &d {
                    Ok(Ok((DecapStatus::CompletedPkt(buf, m), consumed))) => {
                        let mut bad = Vec::new();
                        if *consumed != o.n {
                            bad.push(format!("consumed {} != reported {}", consumed, o.n));
                        }
                        if m.pdu_len() != plen || buf.len() < plen || buf[..plen] != pdu[..] {
                            bad.push(format!("PDU differs (delivered length {})", m.pdu_len()));
                        }
                        if m.protocol_type() != ptype {
                            bad.push(format!("protocol type {:#06x} != {:#06x}", m.protocol_type(), ptype));
                        }
                        if m.label() != label {
                            bad.push(format!("label {} != {}", label_str(&m.label()), label_str(&label)));
                        }
                        if !bad.is_empty() {
                            rep.violation("C02", format!("delivered-pdu-differs:{}", cls), || format!("pdu {}B in {} packets: {}", plen, npk, bad.join("; ")), &replay);
                        } else {
                            delivered = true;
                        }
                    }
                    other => {
                        rep.violation("C02", format!("final-packet-not-delivered:{}", cls), || format!("pdu {}B, packet {} (final, {}B, storage {}B): {}", plen, npk, o.n, storage, dec_res_str(other)), &replay);
                    }
                }
                break;
            } else {
                match &d {
                    Ok(Ok((DecapStatus::FragmentedPkt(m), consumed))) => {
                        if *consumed != o.n || m.label() != label || m.protocol_type() != ptype {
                            rep.violation("C02", format!("fragment-status-differs:{}", cls), || format!("packet {} of pdu {}B: consumed {} (reported {}), label {} (sent {}), type {:#06x} (sent {:#06x})", npk, plen, consumed, o.n, label_str(&m.label()), label_str(&label), m.protocol_type(), ptype), &replay);
                            return;
                        }
                    }
                    other => {
                        rep.violation("C02", format!("fragment-rejected:{}", cls), || format!("packet {} of pdu {}B ({}B, {} payload bytes, buffer offered {}B): {}", npk, plen, o.n, o.payload_len, b, dec_res_str(other)), &replay);
                        return;
                    }
                }
                if ctx.is_none() {
                    remaining_after_first = plen - o.ctx.unwrap().len_pdu_frag() as usize;
                }
                ctx = o.ctx;
                // between two fragments of the train the receiver's label memory is emptied by a legal event (one train
                // in eight each): reset_last_label() at a frame boundary, padding, a broadcast packet of another stream
                if npk == 1 + ((key / 128) % 2) as usize {
                    match (key / 16) % 8 {
                        5 => {
                            dec.reset_last_label();
                            rep.count("trains.mid-train.reset_last_label");
                        }
                        6 => {
                            let _ = dec_guard(&mut dec, &[0u8; 5]);
                            rep.count("trains.mid-train.padding");
                        }
                        7 => {
                            if let Ok(Ok((DecapStatus::CompletedPkt(bf, _), _))) = dec_guard(&mut dec, &crate::hostile::mk_complete(2, &[], 0x0800, b"")) {
                                give_back(&mut dec, bf);
                                rep.count("trains.mid-train.broadcast-packet");
                            }
                        }
                        _ => {}
                    }
                }
                if useful_after_first > remaining_after_first + 1 {
                    rep.violation("C02", format!("not-completed-in-time:{}", cls), || format!("pdu {}B: {} buffers >= 13 bytes offered after the first fragment, {} bytes remained", plen, useful_after_first, remaining_after_first), &replay);
                    return;
                }
            }
        }
        rep.count_n("trains.packets", npk as u64);
        if delivered {
            rep.count(if npk >= 2 { "trains.fragmented-delivered" } else { "trains.single-packet-delivered" });
            if npk >= 2 {
                rep.nontrivial(mix(mix(plen as u64, sched as u64), mix(case as u64 * 256 + frag_id as u64, npk as u64)));
                rep.count(&format!("trains.delivered.{}", ["6B", "3B", "bcast", "6Bsub", "3Bsub", "3Bzero"][case]));
            }
            if key < 3 && gen == "trains" {
                rep.sample(|| format!("train: pdu {}B label {} frag_id {} schedule {} storage {}B -> {} packets, delivered intact", plen, label_str(&label), frag_id, sched, storage, npk));
            }
        }
    }
    fn floors(&self, _cx: &Cx, rep: &mut Report) {
        for k in ["trains.delivered.6B", "trains.delivered.3B", "trains.delivered.bcast", "trains.delivered.6Bsub", "trains.delivered.3Bsub"] {
            if rep.get(k) == 0 {
                rep.floors_missing.push(format!("C02 floor: counter {} is 0", k));
            }
        }
    }
}
