//! Frame traffic shared by C10 (frame walking by consumed lengths) and C19 (peek agreement):
//! packets produced by the real encapsulator are laid back to back in frame buffers followed by
//! zero padding; a walker receiver and a twin receiver (same initial state, each packet alone)
//! are compared.

use crate::mon::guard;
use crate::report::Report;
use crate::rng::{fnv, hex_short, mix, Rng};
use crate::util::*;
use crate::wire::{self, Kind, MandTable};
use crate::Cx;
use dvb_gse_rust::crc::DefaultCrc;
use dvb_gse_rust::gse_decap::{DecapStatus, GetLabelorFragIdError, LabelorFragId};
use dvb_gse_rust::gse_encap::{ContextFrag, EncapMetadata, EncapStatus, Encapsulator};
use dvb_gse_rust::header_extension::Extension;
use dvb_gse_rust::label::Label;

pub const M_C10: u32 = 1;
pub const M_C19: u32 = 2;

struct Active {
    pdu: Vec<u8>,
    ctx: ContextFrag,
    label: Label,
    ptype: u16,
    /// false once the train has been replaced on the receiver side (its id or slot was claimed by a newer PDU)
    live: bool,
    /// a newer PDU with another fragment id mapping to the same slot was emitted (and fitted): the receiver
    /// has dropped this train, its remaining packets belong to nothing
    taken_over: bool,
}

#[derive(Clone, Debug)]
pub struct PktInfo {
    pub off: usize,
    pub len: usize,
    pub kind: Kind,
    pub frag_id: u8,
    /// label passed by the caller (start/complete packets)
    pub label: Option<Label>,
    pub has_ext: bool,
    pub corrupted: Option<&'static str>,
    /// protocol type and label of the PDU this packet belongs to (continuation packets of a live train)
    pub train_meta: Option<(u16, Label)>,
    /// continuation packet of a PDU whose memory slot was claimed by a newer PDU of ANOTHER fragment id
    pub slot_taken_over: bool,
}

pub struct Source {
    enc: Encapsulator<DefaultCrc>,
    active: Vec<Active>,
    labels: Vec<Label>,
    signalling: bool,
    /// number of slots of the receivers' memory (ids of PDUs in flight are distinct modulo this)
    slots: usize,
    /// also emit PDUs of 30000..65000 bytes (receivers with storage above 64 KiB)
    big: bool,
}

impl Source {
    pub fn new(rng: &mut Rng, signalling: bool) -> Self {
        let mut labels = vec![gen_label(rng, 0), gen_label(rng, 2), gen_label(rng, 3), Label::Broadcast, gen_label(rng, 1)];
        // labels that share their leading bytes across label types (3-byte label = first half of a 6-byte one)
        if let Label::SixBytesLabel(b) = labels[0] {
            labels.push(Label::ThreeBytesLabel([b[0], b[1], b[2]]));
        }
        if let Label::ThreeBytesLabel(b) = labels[1] {
            labels.push(Label::SixBytesLabel([b[0], b[1], b[2], rng.byte(), rng.byte(), 1 | rng.byte()]));
        }
        Source { enc: Encapsulator::new(DefaultCrc {}), active: Vec::new(), labels, signalling, slots: 4, big: false }
    }

    /// fill one frame of capacity `cap`; returns frame bytes (no padding yet) and packet infos
    pub fn fill(&mut self, rng: &mut Rng, cap: usize, max_pkts: usize, rep: &mut Report) -> (Vec<u8>, Vec<PktInfo>) {
        self.enc.reset_last_label();
        let mut frame = vec![0u8; cap];
        let mut infos = Vec::new();
        let mut off = 0usize;
        while infos.len() < max_pkts && cap - off >= 3 {
            let space = cap - off;
            let limit = match rng.below(4) {
                0 => space,
                1 => std::cmp::min(space, 3 + rng.below(40)),
                2 => std::cmp::min(space, 13 + rng.below(600)),
                _ => std::cmp::min(space, 4097),
            };
            let cont = !self.active.is_empty() && (self.active.len() >= 4 || rng.chance(1, 2));
            if cont {
                let i = rng.below(self.active.len());
                let a = &self.active[i];
                let r = guard(|| self.enc.encap_frag(&a.pdu, &a.ctx, &mut frame[off..off + limit]));
                match r {
                    Ok(Ok(EncapStatus::CompletedPkt(n))) if n as usize <= limit && n >= 2 => {
                        infos.push(PktInfo { off, len: n as usize, kind: Kind::End, frag_id: a.ctx.frag_id(), label: None, has_ext: false, corrupted: None, train_meta: if a.live { Some((a.ptype, a.label)) } else { None }, slot_taken_over: a.taken_over });
                        off += n as usize;
                        self.active.remove(i);
                    }
                    Ok(Ok(EncapStatus::FragmentedPkt(n, c))) if n as usize <= limit && n >= 2 => {
                        infos.push(PktInfo { off, len: n as usize, kind: Kind::Inter, frag_id: a.ctx.frag_id(), label: None, has_ext: false, corrupted: None, train_meta: if a.live { Some((a.ptype, a.label)) } else { None }, slot_taken_over: a.taken_over });
                        off += n as usize;
                        self.active[i].ctx = c;
                    }
                    Ok(Err(_)) => {
                        if rng.chance(1, 3) {
                            break;
                        }
                    }
                    _ => {
                        rep.count("frames.sender-misbehaved");
                        break;
                    }
                }
            } else {
                let plen = match rng.below(6) {
                    0 => rng.below(3),
                    1 => rng.range(3000, 6000),
                    2 => rng.range(500, 3000),
                    _ => rng.below(300),
                };
                let mut plen = if self.big && rng.chance(1, 5) { rng.range(30000, 65000) } else { plen };
                let mut label = if rng.chance(1, 12) { Label::ReUse } else { self.labels[rng.below(self.labels.len())] };
                let used: Vec<usize> = self.active.iter().map(|a| a.ctx.frag_id() as usize % self.slots).collect();
                let slot = (0..self.slots.min(4)).find(|s| !used.contains(s)).unwrap_or(0);
                let mut frag_id = if self.slots == 255 {
                    // ids 0 and 255 map to the same slot of a 255-slot memory: both are used
                    [0u8, 255, 1, 2][rng.below(4)]
                } else {
                    (slot + self.slots * rng.below(256 / self.slots)) as u8
                };
                let mut restart_ptype: Option<u16> = None;
                // one new PDU in ten abandons a PDU in flight and re-uses its fragment id at once for a PDU of the
                // same size and protocol type but another label of the same kind
                if !self.active.is_empty() && rng.chance(1, 10) {
                    let a = &self.active[rng.below(self.active.len())];
                    frag_id = a.ctx.frag_id();
                    plen = a.pdu.len();
                    restart_ptype = Some(a.ptype);
                    label = match a.label {
                        Label::SixBytesLabel(b) => Label::SixBytesLabel([b[0], b[1], b[2], b[3], b[4], b[5] ^ 0x40 | 1]),
                        Label::ThreeBytesLabel(b) => Label::ThreeBytesLabel([b[0], b[1], b[2] ^ 0x40]),
                        o => o,
                    };
                }
                let pdu = rng.bytes(plen);
                let (ptype, exts): (u16, Option<Vec<Extension>>) = if self.signalling && rng.chance(1, 8) {
                    ([0x0081u16, 0x0082][rng.below(2)], None)
                } else if self.signalling && rng.chance(1, 8) {
                    // encap_ext with a chain that ends in a final mandatory extension (its id is the protocol type),
                    // optionally preceded by an optional extension
                    let pt = [0x0081u16, 0x0082][rng.below(2)];
                    let mut v = Vec::new();
                    if rng.chance(1, 2) {
                        let d = rng.bytes(2);
                        if let Ok(e) = Extension::new(0x0200 | rng.byte() as u16, &d) {
                            v.push(e);
                        }
                    }
                    match Extension::new(pt, &[]) {
                        Ok(e) => v.push(e),
                        Err(_) => v.clear(),
                    }
                    (pt, if v.is_empty() { None } else { Some(v) })
                } else if rng.chance(1, 8) {
                    let id = 0x0100 | rng.below(256) as u16;
                    (gen_user_ptype(rng), Extension::new(id, &[]).ok().map(|e| vec![e]))
                } else if rng.chance(1, 12) {
                    let id = 0x0300 | rng.below(256) as u16;
                    let d = rng.bytes(4);
                    (gen_user_ptype(rng), Extension::new(id, &d).ok().map(|e| vec![e]))
                } else if rng.chance(1, 12) {
                    // a long chain (extension area larger than what may be left of the PDU)
                    let mut v = Vec::new();
                    let nchain = if rng.chance(1, 4) { 9 + rng.below(6) } else { 2 + rng.below(3) };
                    for _ in 0..nchain {
                        let h = 2 + rng.below(4);
                        let d = rng.bytes(2 * h - 2);
                        if let Ok(e) = Extension::new(((h as u16) << 8) | rng.byte() as u16, &d) {
                            v.push(e);
                        }
                    }
                    (gen_user_ptype(rng), if v.is_empty() { None } else { Some(v) })
                } else {
                    (gen_user_ptype(rng), None)
                };
                let (ptype, exts) = match restart_ptype {
                    Some(p) if p >= 0x0600 => (p, None),
                    _ => (ptype, exts),
                };
                let meta = EncapMetadata::new(ptype, label);
                let has_ext = exts.is_some();
                let r = guard(|| match exts {
                    Some(e) => self.enc.encap_ext(&pdu, frag_id, meta, &mut frame[off..off + limit], e),
                    None => self.enc.encap(&pdu, frag_id, meta, &mut frame[off..off + limit]),
                });
                match r {
                    Ok(Ok(EncapStatus::CompletedPkt(n))) if n as usize <= limit && n >= 2 => {
                        infos.push(PktInfo { off, len: n as usize, kind: Kind::Complete, frag_id, label: Some(label), has_ext, corrupted: None, train_meta: None, slot_taken_over: false });
                        off += n as usize;
                    }
                    Ok(Ok(EncapStatus::FragmentedPkt(n, c))) if n as usize <= limit && n >= 2 => {
                        infos.push(PktInfo { off, len: n as usize, kind: Kind::First, frag_id, label: Some(label), has_ext, corrupted: None, train_meta: None, slot_taken_over: false });
                        let label_in_full = frame[off] & 0x30 != 0x30;
                        off += n as usize;
                        self.active.retain(|a| a.ctx.frag_id() != frag_id);
                        let slots = self.slots;
                        for a in self.active.iter_mut() {
                            if a.ctx.frag_id() as usize % slots == frag_id as usize % slots {
                                a.live = false;
                                // only when the newer first fragment cannot have been refused for a label reason: it
                                // carries its label in full (or is broadcast) on the wire
                                if label_in_full && !has_ext && ptype >= 0x0600 {
                                    a.taken_over = true;
                                }
                            }
                        }
                        // (an explicit re-use label may be unresolvable: the receiver then has no live context)
                        self.active.push(Active { pdu, ctx: c, label, ptype, live: label != Label::ReUse && !has_ext, taken_over: false });
                    }
                    Ok(Err(_)) => {
                        if rng.chance(1, 3) {
                            break;
                        }
                    }
                    _ => {
                        rep.count("frames.sender-misbehaved");
                        break;
                    }
                }
            }
        }
        frame.truncate(off);
        (frame, infos)
    }
}

fn outcome_str(r: &DecRes) -> String {
    match r {
        Ok(Ok((DecapStatus::CompletedPkt(b, m), _))) => format!("Completed(len={},type={:#06x},label={},exts={:?},pdu={:016x})", m.pdu_len(), m.protocol_type(), label_str(&m.label()), m.extensions().iter().map(|e| e.id()).collect::<Vec<_>>(), fnv(&b[..m.pdu_len().min(b.len())])),
        Ok(Ok((DecapStatus::FragmentedPkt(m), _))) => format!("Fragmented(type={:#06x},label={},exts={:?})", m.protocol_type(), label_str(&m.label()), m.extensions().iter().map(|e| e.id()).collect::<Vec<_>>()),
        Ok(Ok((DecapStatus::Padding, _))) => "Padding".into(),
        Ok(Err((e, _))) => format!("Err({})", short_err(e)),
        Err(p) => format!("PANIC({})", crate::mon::panic_class(p)),
    }
}

fn consumed_of(r: &DecRes) -> Option<usize> {
    match r {
        Ok(Ok((_, n))) => Some(*n),
        Ok(Err((_, n))) => Some(*n),
        Err(_) => None,
    }
}

/// start / complete packet whose label type carries label bytes (3 or 6)
fn lt_has_bytes(pkt: &[u8]) -> bool {
    pkt.len() >= 2 && wire::lt_of_word(u16::from_be_bytes([pkt[0], pkt[1]])) < 2
}

fn recycle(d: &mut PlainDec, r: DecRes) {
    if let Ok(Ok((DecapStatus::CompletedPkt(b, _), _))) = r {
        let _ = d.provision_storage(b);
    }
}

pub fn gens(cx: &Cx) -> Vec<crate::Gen> {
    vec![crate::Gen { name: "frames", count: cx.n(12_000, 1_200_000), exhaustive: false }, crate::Gen { name: "tails", count: cx.n(20_000, 1_000_000), exhaustive: false }, crate::Gen { name: "memfaults", count: cx.n(2_000, 200_000), exhaustive: false }, crate::Gen { name: "overlong", count: cx.n(150, 6_000), exhaustive: false }]
}

pub const RULE: &str = "frames: key -> a seeded traffic source (real encapsulator, up to 4 PDUs in flight on fragment ids distinct modulo the memory slots (4 slots; one run in eight 255 slots with ids 0, 255, 1, 2, where 0 and 255 share a slot), one new PDU in ten abandons a PDU in flight and takes over its fragment id with the same size and type but another label, PDUs of 0..6000 bytes, labels from a 7-label alphabet (incl. 3- and 6-byte labels sharing their leading bytes) plus explicit re-use, optional extensions, signalling protocol types 0x0081/0x0082 when the receiver uses the signalisation manager, through encap and through encap_ext with a chain ending in that final mandatory extension) fills 1..6 consecutive frames of 64..16200 bytes with up to 40 packets each (trains continue across frames, label memories reset at frame boundaries on both sides), followed by 0..64 zero bytes (one frame in ten: 4090..9000 zero bytes); one receiver in twelve has storage above 64 KiB and then sees PDUs of 30000..65000 bytes; (C10) one frame in six loses a packet on the way; some packets are then corrupted in a listed way (bad CRC trailer, another fragment id incl. ids mapping to the same memory slot) and receivers sometimes have too few or too small storage buffers (PDUs overflow at an intermediate / end fragment); a walker receiver advances by consumed lengths, a twin receiver gets each packet alone; the peek is asked about the packet alone, followed by 1..16 further bytes and (one packet in forty) at the head of a 64 KiB buffer. overlong (C10): with storage above 64 KiB a reassembly of about 64000 bytes whose end was lost is continued by the fragments of another PDU of the same id until it would pass 65535 bytes, each fragment followed by a complete packet and padding. memfaults (C10): one frame walked by a twin and a walker that sit on the same fault-injecting memory wrapper, armed to fail the same memory operation (a random one of the undisturbed walk) with each documented error: outcome and consumed length of every packet must not depend on the bytes that follow it. In frames, the application also tops both free lists up to 'full' at random points, and (C19) peeks at another packet of the same label type between the peek and the decap of a packet. tails: one packet (after its train prefix) followed by nothing / zeros / 0xFF / random bytes / another packet on identically prepared receivers. Every decap / peek call is an evaluation; non-trivial = a frame with at least 2 packets (or a tail variant set) fully compared; fingerprint = hash of the frame bytes.";

pub fn run_key(cx: &Cx, mask: u32, gen: &str, key: u64, rep: &mut Report) {
    let replay_s = format!("gen={} key={} seed={} profile={}", gen, key, cx.seed, cx.profile);
    let replay = || replay_s.clone();
    let mut rng = Rng::derive(cx.seed, fnv(gen.as_bytes()), key);
    let signalling = rng.chance(1, 2);
    let table = if signalling { MandTable::signalisation() } else { MandTable::none() };
    let nbuf = [1usize, 2, 6, 6, 6][rng.below(5)];
    // storage sized for the largest PDU, or (one receiver in four) much smaller: long PDUs then overflow the
    // storage at an intermediate / end fragment and are rejected there
    let storage = match rng.below(12) {
        0..=2 => 700,
        3 => 70000,
        _ => 6000,
    };
    // 4-slot memories; one run in eight uses 255 slots, where fragment ids 0 and 255 share a slot
    let slots = if rng.chance(1, 8) { 255 } else { 4 };
    let mk = |t: &MandTable| plain_dec(slots, storage, nbuf, storage, t.clone());
    let mut src = Source::new(&mut rng, true);
    src.slots = slots;
    src.big = storage > 65536;
    match gen {
        "frames" => {
            let mut walker = mk(&table);
            let mut twin = mk(&table);
            let nframes = 1 + rng.below(6);
            for _f in 0..nframes {
                let cap = match rng.below(4) {
                    0 => rng.range(64, 300),
                    1 => rng.range(300, 4200),
                    _ => rng.range(4200, 16200),
                };
                let maxp = 1 + rng.below(40);
                let (mut frame, mut infos) = src.fill(&mut rng, cap, maxp, rep);
                if infos.is_empty() {
                    continue;
                }
                // a packet lost on the way (C10 only: the association oracle of C19 assumes every packet arrives)
                if mask & M_C19 == 0 && infos.len() >= 2 && rng.chance(1, 6) {
                    let v = rng.below(infos.len());
                    let (o, l) = (infos[v].off, infos[v].len);
                    frame.drain(o..o + l);
                    infos.remove(v);
                    for inf in infos[v..].iter_mut() {
                        inf.off -= l;
                    }
                    rep.count("frames.packet-lost");
                }
                // listed corruptions
                for inf in infos.iter_mut() {
                    if rng.chance(1, 25) {
                        match inf.kind {
                            Kind::End if inf.len >= 7 => {
                                frame[inf.off + inf.len - 1 - rng.below(4)] ^= 1 << rng.below(8);
                                inf.corrupted = Some("bad-crc");
                            }
                            Kind::Inter | Kind::End => {
                                // another fragment id: a neighbour, or one that maps to the same memory slot (4 slots)
                                let delta = if rng.chance(1, 2) { 1 + rng.below(3) as u8 } else { 4 * (1 + rng.below(8)) as u8 };
                                frame[inf.off + 2] = frame[inf.off + 2].wrapping_add(delta);
                                inf.corrupted = Some("other-frag-id");
                            }
                            _ => {}
                        }
                    }
                }
                // 0..64 padding bytes, sometimes a mostly empty frame (thousands of zero bytes)
                let pad = if rng.chance(1, 10) { rng.range(4090, 9000) } else { rng.below(65) };
                frame.extend(std::iter::repeat(0u8).take(pad));
                walker.reset_last_label();
                twin.reset_last_label();
                let mut off = 0usize;
                let mut broken = false;
                for (i, inf) in infos.iter().enumerate() {
                    let pkt = &frame[inf.off..inf.off + inf.len];
                    // C10: never reads as padding
                    if mask & M_C10 != 0 && pkt[0] & 0xF0 == 0 {
                        rep.violation("C10", format!("emitted-packet-reads-as-padding:{}", inf.kind.name()), || format!("the encapsulator emitted {} whose first nibble is 0", hex_short(pkt, 24)), &replay);
                    }
                    rep.evals(2);
                    // peek BEFORE the packet is decapsulated (receiver state = after the previous packet) ...
                    if mask & M_C19 != 0 {
                        let cls0 = format!("{}{}:before-decap", inf.kind.name(), if inf.has_ext { "+ext" } else { "" });
                        check_peek(&twin, pkt, &frame[inf.off..], inf, &Err("not decapsulated yet".into()), &cls0, rep, &replay, &mut rng);
                    }
                    if mask & M_C19 != 0 && lt_has_bytes(pkt) && matches!(inf.kind, Kind::Complete | Kind::First) {
                        // between the peek and the decap of this packet, the application peeks at ANOTHER packet (same
                        // label type, other label bytes): what decap then reports must still be this packet's label
                        let mut decoy = pkt.to_vec();
                        let lo = if inf.kind == Kind::First { 7 } else { 4 };
                        if decoy.len() > lo + 2 {
                            decoy[lo + 2] ^= 0x55;
                            let _ = guard(|| twin.get_label_or_frag_id(&decoy));
                            rep.count("peek.decoy-before-decap");
                        }
                    }
                    if rng.chance(1, 30) {
                        // the application tops both receivers' free lists up until the memory reports full
                        for d in [&mut twin, &mut walker] {
                            for _ in 0..16 {
                                if d.provision_storage(vec![0u8; storage].into_boxed_slice()).is_err() {
                                    break;
                                }
                            }
                        }
                        rep.count("frames.free-list-filled-up");
                    }
                    let rt = dec_guard(&mut twin, pkt);
                    let cls = format!("{}{}{}", inf.kind.name(), if inf.has_ext { "+ext" } else { "" }, inf.corrupted.map(|c| format!("+{}", c)).unwrap_or_default());
                    // ... and after it
                    if mask & M_C19 != 0 {
                        check_peek(&twin, pkt, &frame[inf.off..], inf, &rt, &cls, rep, &replay, &mut rng);
                    }
                    if off != inf.off {
                        broken = true;
                        recycle(&mut twin, rt);
                        break;
                    }
                    let rw = dec_guard(&mut walker, &frame[off..]);
                    let (ot, ow) = (outcome_str(&rt), outcome_str(&rw));
                    if mask & M_C10 != 0 {
                        if ot != ow {
                            rep.violation("C10", format!("outcome-depends-on-following-bytes:{}", cls), || format!("packet {} of the frame ({}): alone -> {}, inside the frame (followed by {} bytes) -> {}", i, hex_short(pkt, 40), ot, frame.len() - inf.off - inf.len, ow), &replay);
                        }
                        if let Some(c) = consumed_of(&rw) {
                            if c != inf.len {
                                rep.violation("C10", format!("consumed-length:{}", cls), || format!("packet {} of the frame ({}, {} bytes, outcome {}): walker consumed {} bytes", i, hex_short(pkt, 40), inf.len, ow, c), &replay);
                            }
                        }
                    }
                    match &rw {
                        Ok(Ok(_)) => rep.count("frames.accepted"),
                        Ok(Err((e, _))) => rep.count(&format!("frames.rejected.{}", short_err(e).split('(').next().unwrap_or("?"))),
                        Err(_) => rep.count("frames.panic"),
                    }
                    if let Some(c) = inf.corrupted {
                        rep.count(&format!("frames.corrupted.{}", c));
                    }
                    let adv = consumed_of(&rw).unwrap_or(0);
                    recycle(&mut twin, rt);
                    recycle(&mut walker, rw);
                    if adv != inf.len {
                        broken = true;
                        break;
                    }
                    off += adv;
                }
                if !broken && mask & M_C10 != 0 {
                    let rest = frame.len() - off;
                    if rest >= 2 {
                        rep.eval();
                        let rw = dec_guard(&mut walker, &frame[off..]);
                        match &rw {
                            Ok(Ok((DecapStatus::Padding, n))) if *n == rest => rep.count("frames.padding-ok"),
                            other => rep.violation("C10", "padding-after-packets".into(), || format!("{} zero bytes after {} packets: expected Padding consuming {}, got {}", rest, infos.len(), rest, dec_res_str(other)), &replay),
                        }
                    }
                }
                if !broken && infos.len() >= 2 {
                    rep.nontrivial(mix(key, fnv(&frame)));
                }
                rep.count_n("frames.packets", infos.len() as u64);
                rep.count("frames.frames");
                if key < 2 && _f == 0 {
                    rep.sample(|| format!("frame of {} bytes: {} packets [{}] + {} padding bytes -> walker == twin, padding consumed", frame.len(), infos.len(), infos.iter().take(8).map(|i| format!("{}:{}", i.kind.name(), i.len)).collect::<Vec<_>>().join(","), pad));
                }
                if broken {
                    break;
                }
            }
        }
        "overlong" => {
            // storage above 64 KiB: PDU A (about 64000 bytes) loses its end packet, PDU B on the same fragment id loses
            // its first fragment; B's fragments are appended to A's reassembly until the received length would pass
            // 65535 bytes; each of B's packets is followed in its frame by a complete packet and padding
            if mask & M_C10 == 0 {
                return;
            }
            use crate::train::build_train;
            let id = rng.byte();
            let big = 70000usize;
            let la = gen_label(&mut rng, 4);
            let a_len = rng.range(63000, 65400);
            let b_len = rng.range(1500, 6000);
            let pa = rng.bytes(a_len);
            let pb = rng.bytes(b_len);
            let mut enc = Encapsulator::new(DefaultCrc {});
            let ta = match build_train(&mut enc, &pa, id, EncapMetadata::new(0x0800, la), None, |_| 4097, 64) {
                Ok(t) if t.complete && t.pkts.len() >= 3 => t,
                _ => return,
            };
            let mut r2 = rng.clone();
            let tb = match build_train(&mut enc, &pb, id, EncapMetadata::new(0x0801, la), None, |k| if k == 0 { 200 } else { 300 + r2.below(1500) }, 64) {
                Ok(t) if t.complete && t.pkts.len() >= 3 => t,
                _ => return,
            };
            let follow = crate::hostile::mk_complete(1, &[9, 9, 9], 0x86DD, b"after");
            let mk2 = || plain_dec(2, big, 2, big, MandTable::none());
            let mut twin = mk2();
            let mut walker = mk2();
            for p in &ta.pkts[..ta.pkts.len() - 1] {
                let _ = dec_guard(&mut twin, p);
                let _ = dec_guard(&mut walker, p);
            }
            for (k, p) in tb.pkts.iter().enumerate().skip(1) {
                let mut frame = p.clone();
                frame.extend_from_slice(&follow);
                frame.extend_from_slice(&[0u8; 6]);
                rep.evals(2);
                let rt = dec_guard(&mut twin, p);
                let rw = dec_guard(&mut walker, &frame);
                let (ot, ow) = (outcome_str(&rt), outcome_str(&rw));
                if ot != ow || consumed_of(&rw) != Some(p.len()) {
                    rep.violation("C10", format!("overlong-reassembly:{}", if k + 1 == tb.pkts.len() { "end" } else { "intermediate" }), || format!("a reassembly of {} bytes is continued by packet {} ({} bytes) of another PDU: alone -> {}, inside a frame -> {} consuming {:?}", a_len, k, p.len(), ot, ow, consumed_of(&rw)), &replay);
                    return;
                }
                recycle(&mut twin, rt);
                recycle(&mut walker, rw);
            }
            rep.count("frames.overlong-runs");
            rep.nontrivial(mix(0x0FE2, mix(key, a_len as u64)));
        }
        "memfaults" => {
            // "the outcome for a packet does not depend on the bytes that follow it", also when the memory behind the
            // trait refuses an operation: twin and walker sit on the same fault-injecting memory wrapper, armed to
            // fail the same (i-th) memory operation with an error the trait documents for it
            if mask & M_C10 == 0 {
                return;
            }
            use crate::mon::{Fault, RecCrc};
            let cap = rng.range(200, 6000);
            let maxp = 2 + rng.below(12);
            let (mut frame, infos) = src.fill(&mut rng, cap, maxp, rep);
            if infos.len() < 2 {
                return;
            }
            let padn = rng.below(20);
            frame.extend(std::iter::repeat(0u8).take(padn));
            let bufs = vec![storage; nbuf];
            let mkm = || mon_dec(slots, storage, &bufs, table.clone(), RecCrc::off());
            // number of memory operations of the undisturbed walk
            let mut probe = mkm();
            probe.memory.arm(None);
            for inf in &infos {
                let r = dec_guard(&mut probe, &frame[inf.off..inf.off + inf.len]);
                if let Ok(Ok((DecapStatus::CompletedPkt(b, _), _))) = r {
                    let _ = probe.provision_storage(b);
                }
            }
            let nops = probe.memory.ops;
            if nops == 0 {
                return;
            }
            for _ in 0..6 {
                let i = rng.below(nops);
                for fault in [Fault::Underflow, Fault::UndefinedId, Fault::Corrupted, Fault::Overflow] {
                    let mut twin = mkm();
                    let mut walker = mkm();
                    twin.memory.arm(Some((i, fault.clone())));
                    walker.memory.arm(Some((i, fault.clone())));
                    let mut off = 0usize;
                    for (k, inf) in infos.iter().enumerate() {
                        if off != inf.off {
                            break;
                        }
                        let pkt = &frame[inf.off..inf.off + inf.len];
                        rep.evals(2);
                        let rt = dec_guard(&mut twin, pkt);
                        let rw = dec_guard(&mut walker, &frame[off..]);
                        let (ot, ow) = (format!("{} consumed {:?}", outcome_str(&rt), consumed_of(&rt)), format!("{} consumed {:?}", outcome_str(&rw), consumed_of(&rw)));
                        if ot != ow {
                            rep.violation("C10", format!("outcome-depends-on-following-bytes:memory-refusal:{:?}:{}", fault, inf.kind.name()), || format!("memory operation {} of {} fails with {:?}: packet {} of the frame ({}): alone -> {}, inside the frame (followed by {} bytes) -> {}", i, nops, fault, k, hex_short(pkt, 32), ot, frame.len() - inf.off - inf.len, ow), &replay);
                            break;
                        }
                        let adv = consumed_of(&rw).unwrap_or(0);
                        if let Ok(Ok((DecapStatus::CompletedPkt(b, _), _))) = rt {
                            let _ = twin.provision_storage(b);
                        }
                        if let Ok(Ok((DecapStatus::CompletedPkt(b, _), _))) = rw {
                            let _ = walker.provision_storage(b);
                        }
                        if adv != inf.len {
                            break;
                        }
                        off += adv;
                    }
                    if walker.memory.fired {
                        rep.count("memfaults.fault-fired");
                    }
                }
            }
            rep.nontrivial(mix(0xFA17, mix(key, fnv(&frame))));
        }
        "tails" => {
            // one frame's packets; pick a target packet; all receivers are fed the packets before it alone
            let cap = rng.range(100, 6000);
            let maxp = 1 + rng.below(8);
            let (frame, infos) = src.fill(&mut rng, cap, maxp, rep);
            if infos.is_empty() {
                return;
            }
            let ti = rng.below(infos.len());
            let t = &infos[ti];
            let pkt = &frame[t.off..t.off + t.len];
            let another: Vec<u8> = {
                let o = &infos[rng.below(infos.len())];
                frame[o.off..o.off + o.len].to_vec()
            };
            let variants: Vec<(&str, Vec<u8>)> = vec![
                ("nothing", vec![]),
                ("zeros", vec![0u8; 1 + rng.below(20)]),
                ("ff", vec![0xFFu8; 1 + rng.below(20)]),
                ("random", {
                    let n = 1 + rng.below(40);
                    rng.bytes(n)
                }),
                ("one-byte", vec![rng.byte()]),
                ("another-packet", another),
            ];
            let mut base: Option<String> = None;
            for (vn, tail) in &variants {
                let mut d = mk(&table);
                d.reset_last_label();
                let mut ok = true;
                for p in &infos[..ti] {
                    let r = dec_guard(&mut d, &frame[p.off..p.off + p.len]);
                    if r.is_err() {
                        ok = false;
                        break;
                    }
                    recycle(&mut d, r);
                }
                if !ok {
                    rep.count("tails.prefix-panic");
                    return;
                }
                let mut buf = pkt.to_vec();
                buf.extend_from_slice(tail);
                rep.eval();
                let r = dec_guard(&mut d, &buf);
                let o = outcome_str(&r);
                let cls = format!("{}{}", t.kind.name(), if t.has_ext { "+ext" } else { "" });
                if mask & M_C19 != 0 {
                    check_peek(&d, pkt, &buf, t, &r, &cls, rep, &replay, &mut rng);
                }
                if mask & M_C10 != 0 {
                    match &base {
                        None => base = Some(o.clone()),
                        Some(b) if *b != o => {
                            rep.violation("C10", format!("outcome-depends-on-following-bytes:{}:{}", cls, vn), || format!("packet {}: alone -> {}, followed by {} ({}) -> {}", hex_short(pkt, 40), b, vn, hex_short(tail, 24), o), &replay);
                        }
                        _ => {}
                    }
                    if let Some(c) = consumed_of(&r) {
                        if c != t.len {
                            rep.violation("C10", format!("consumed-length:{}:{}", cls, vn), || format!("packet {} ({} bytes, outcome {}) followed by {}: consumed {}", hex_short(pkt, 40), t.len, o, vn, c), &replay);
                        }
                    }
                }
            }
            rep.count("tails.sets");
            rep.nontrivial(mix(key ^ 0x7A11, fnv(pkt)));
        }
        _ => {}
    }
}

/// C19: peek vs sender knowledge vs wire vs decap
fn check_peek(d: &PlainDec, pkt: &[u8], with_tail: &[u8], inf: &PktInfo, dres: &DecRes, cls: &str, rep: &mut Report, replay: &dyn Fn() -> String, rng: &mut Rng) {
    if inf.corrupted.is_some() {
        return;
    }
    let extra = 1 + rng.below(16);
    let longer = &with_tail[..std::cmp::min(with_tail.len(), pkt.len() + extra)];
    let lt = wire::lt_of_word(u16::from_be_bytes([pkt[0], pkt[1]]));
    // one packet in forty is also presented at the head of a buffer of 64 KiB + 0..12 bytes (zero filled)
    let huge: Vec<u8> = if rng.chance(1, 40) {
        let mut h = pkt.to_vec();
        h.resize(65536 + rng.below(13), 0);
        h
    } else {
        Vec::new()
    };
    let mut views: Vec<(&str, &[u8])> = vec![("alone", pkt), ("followed", longer)];
    if huge.len() > pkt.len() {
        views.push(("followed-by-64KiB", &huge));
    }
    for (vn, buf) in views {
        rep.eval();
        let r = guard(|| d.get_label_or_frag_id(buf));
        let r = match r {
            Ok(r) => r,
            Err(p) => {
                rep.violation("C19", format!("peek-panic:{}:{}", cls, vn), || format!("get_label_or_frag_id panicked on {}: {}", hex_short(buf, 40), p), replay);
                continue;
            }
        };
        rep.count("peek.calls");
        match inf.kind {
            Kind::Inter | Kind::End => {
                // the PDU decap associates with this packet must be the sender's PDU of that fragment id
                if vn == "alone" && inf.slot_taken_over && !cls.contains("before-decap") {
                    if let Ok(Ok((DecapStatus::CompletedPkt(_, m), _))) | Ok(Ok((DecapStatus::FragmentedPkt(m), _))) = dres {
                        rep.violation("C19", format!("decap-associates-another-pdu:slot-taken-over:{}", cls), || format!("fragment id {} ({}): the slot of this PDU was claimed by a newer PDU of another fragment id, yet decap accepted the packet (into a PDU with type {:#06x} / label {})", inf.frag_id, hex_short(buf, 24), m.protocol_type(), label_str(&m.label())), replay);
                    } else {
                        rep.count("peek.taken-over-rejected");
                    }
                }
                if vn == "alone" {
                    if let (Some((pt, lb)), Some(m)) = (inf.train_meta, match dres {
                        Ok(Ok((DecapStatus::CompletedPkt(_, m), _))) => Some(m.clone()),
                        Ok(Ok((DecapStatus::FragmentedPkt(m), _))) => Some(m.clone()),
                        _ => None,
                    }) {
                        if m.protocol_type() != pt || m.label() != lb {
                            rep.violation("C19", format!("decap-associates-another-pdu:{}", cls), || format!("peek says fragment id {} for {}; decap accepted the packet into a PDU with type {:#06x} / label {} but the sender's PDU of id {} has type {:#06x} / label {}", inf.frag_id, hex_short(buf, 24), m.protocol_type(), label_str(&m.label()), inf.frag_id, pt, label_str(&lb)), replay);
                        } else {
                            rep.count("peek.association-ok");
                        }
                    }
                }
                if r != Ok(LabelorFragId::FragId(inf.frag_id)) || pkt[2] != inf.frag_id {
                    rep.violation("C19", format!("frag-id:{}:{}", cls, vn), || format!("peek on {} = {:?}, the sender's fragment id is {}", hex_short(buf, 40), r, inf.frag_id), replay);
                } else {
                    rep.count("peek.fragid-ok");
                }
            }
            _ => {
                if lt == 3 {
                    if r != Err(GetLabelorFragIdError::ErrLabelReuse) {
                        rep.violation("C19", format!("reuse-not-reported:{}:{}", cls, vn), || format!("peek on re-use packet {} = {:?}", hex_short(buf, 40), r), replay);
                    } else {
                        rep.count("peek.reuse-ok");
                    }
                } else {
                    let passed = inf.label.unwrap();
                    let from_decap = match dres {
                        Ok(Ok((DecapStatus::CompletedPkt(_, m), _))) => Some(m.label()),
                        Ok(Ok((DecapStatus::FragmentedPkt(m), _))) => Some(m.label()),
                        _ => None,
                    };
                    let good = r == Ok(LabelorFragId::Lbl(passed)) && from_decap.map(|l| l == passed).unwrap_or(true);
                    if !good {
                        rep.violation("C19", format!("label:{}:{}", cls, vn), || format!("peek on {} = {:?}; label passed to the encapsulator {}, label decap associates {:?}", hex_short(buf, 40), r, label_str(&passed), from_decap.map(|l| label_str(&l))), replay);
                    } else {
                        rep.count(if from_decap.is_some() { "peek.label-ok-vs-decap" } else { "peek.label-ok-sender-only" });
                    }
                }
            }
        }
    }
}
