//! Monitored sender: wraps an Encapsulator; every call is recorded at the API boundary
//! (arguments, buffer before/after, encapsulator snapshot before/after, result or panic) and the
//! oracles of the sender-side properties (C06, C09, C11, C18) are evaluated on the observation.
//! Which oracles are *attributed* is selected by the caller's mask; all of them are cheap.

use crate::mon::{guard, panic_class};
use crate::report::Report;
use crate::rng::{hex_short, Rng};
use crate::util::*;
use crate::wire::{self, ExtEntry, Kind, Mand, MandTable};
use dvb_gse_rust::crc::DefaultCrc;
use dvb_gse_rust::gse_encap::{encap_frag_preview, encap_preview, ContextFrag, EncapError, EncapMetadata, EncapStatus, Encapsulator};
use dvb_gse_rust::header_extension::Extension;
use dvb_gse_rust::label::Label;

pub const O_C06: u32 = 1;
pub const O_C09: u32 = 2;
pub const O_C11: u32 = 4;
pub const O_C18: u32 = 8;
pub const O_ALL: u32 = 15;

#[derive(Clone, Copy, Debug, PartialEq, Eq)]
pub enum Func {
    Encap,
    EncapExt,
    Frag,
}

impl Func {
    pub fn name(self) -> &'static str {
        match self {
            Func::Encap => "encap",
            Func::EncapExt => "encap_ext",
            Func::Frag => "encap_frag",
        }
    }
}

/// an extension chain as the caller intends it
#[derive(Clone, Debug)]
pub struct ExtSpec {
    pub entries: Vec<ExtEntry>,
    /// the chain ends in a final mandatory extension (its id replaces the protocol type)
    pub final_ext: bool,
}

impl ExtSpec {
    /// A chain whose last entry is a mandatory extension (id < 0x0100) with the same id as the
    /// protocol type passed IS the final-mandatory case, whatever the generator called it.
    pub fn normalised(&self, ptype: u16) -> ExtSpec {
        let mut c = self.clone();
        if let Some(l) = c.entries.last() {
            if l.id < 0x100 && l.id == ptype {
                c.final_ext = true;
            }
        }
        c
    }
    pub fn to_crate(&self) -> Option<Vec<Extension>> {
        let mut v = Vec::new();
        for e in &self.entries {
            match guard(|| Extension::new(e.id, &e.data)) {
                Ok(Ok(x)) => v.push(x),
                _ => return None,
            }
        }
        Some(v)
    }
    /// table with full knowledge of this chain
    pub fn table(&self) -> MandTable {
        let mut t = MandTable::none();
        let n = self.entries.len();
        for (i, e) in self.entries.iter().enumerate() {
            if e.id < 0x100 {
                t.t[e.id as usize] = if self.final_ext && i + 1 == n { Mand::Final(e.data.len()) } else { Mand::NonFinal(e.data.len()) };
            }
        }
        t
    }
}

pub struct CallSpec<'a> {
    pub func: Func,
    pub pdu: &'a [u8],
    pub frag_id: u8,
    pub ptype: u16,
    pub label: Label,
    pub exts: Option<&'a ExtSpec>,
    pub ctx: Option<ContextFrag>,
    pub buf_len: usize,
}

pub struct CallOut {
    pub res: EncRes,
    /// reported length (0 unless Ok and within the buffer)
    pub n: usize,
    pub ctx: Option<ContextFrag>,
    pub parsed: Option<wire::Parsed>,
    /// payload bytes carried (from the independent parser)
    pub payload_len: usize,
}

impl CallOut {
    pub fn ok(&self) -> bool {
        matches!(self.res, Ok(Ok(_)))
    }
    pub fn completed(&self) -> bool {
        matches!(self.res, Ok(Ok(EncapStatus::CompletedPkt(_))))
    }
}

pub struct Sender {
    pub enc: Encapsulator<DefaultCrc>,
    master: Vec<u8>,
    pub buf: Vec<u8>,
    salt: u8,
}

pub fn label_kind(l: &Label) -> &'static str {
    match l {
        Label::SixBytesLabel(b) if b.iter().all(|x| *x == 0) => "6Bzero",
        Label::SixBytesLabel(_) => "6B",
        Label::ThreeBytesLabel(_) => "3B",
        Label::Broadcast => "bcast",
        Label::ReUse => "reuse",
    }
}

pub fn size_class(pdu_len: usize, buf_len: usize) -> String {
    let p = if pdu_len == 0 {
        "p0"
    } else if pdu_len <= 4095 {
        "pS"
    } else if pdu_len <= 65535 {
        "pL"
    } else {
        "pX"
    };
    let b = if buf_len < 13 {
        "b<13"
    } else if buf_len <= 4097 {
        "bS"
    } else {
        "bL"
    };
    format!("{}{}", p, b)
}

pub fn kind_of_preview_debug(s: &str) -> Option<Kind> {
    match s {
        "CompletePkt" => Some(Kind::Complete),
        "FirstFragPkt" => Some(Kind::First),
        "IntermediateFragPkt" => Some(Kind::Inter),
        "EndFragPkt" => Some(Kind::End),
        _ => None,
    }
}

impl Sender {
    pub fn new(salt: u8) -> Self {
        Sender { enc: Encapsulator::new(DefaultCrc {}), master: sentinel(70016, salt), buf: Vec::new(), salt }
    }

    pub fn emitted(&self, out: &CallOut) -> &[u8] {
        &self.buf[..out.n]
    }

    fn describe(spec: &CallSpec) -> String {
        let mut s = format!("{}(pdu {}B {}, frag_id {}, type {:#06x}, label {}, buffer {}B", spec.func.name(), spec.pdu.len(), hex_short(spec.pdu, 16), spec.frag_id, spec.ptype, label_str(&spec.label), spec.buf_len);
        if let Some(c) = &spec.ctx {
            s.push_str(&format!(", ctx(id {}, crc {:#010x}, pos {})", c.frag_id(), c.crc(), c.len_pdu_frag()));
        }
        if let Some(e) = spec.exts {
            s.push_str(&format!(", exts {:?} final={}", e.entries.iter().map(|x| format!("{:#06x}/{}", x.id, x.data.len())).collect::<Vec<_>>(), e.final_ext));
        }
        s.push(')');
        s
    }

    /// Perform one monitored call. `mask` selects the properties whose oracles are evaluated.
    pub fn call(&mut self, spec: &CallSpec, mask: u32, rep: &mut Report, replay: &dyn Fn() -> String) -> CallOut {
        // a PDU above 65535 bytes can never have been started by encap: continuation calls on it
        // are only judged for totality / atomicity (C09) and preview agreement (C18)
        let mask = if spec.func == Func::Frag && spec.pdu.len() > 65535 { mask & (O_C09 | O_C18) } else { mask };
        let norm_exts = spec.exts.map(|e| e.normalised(spec.ptype));
        let spec = &CallSpec { func: spec.func, pdu: spec.pdu, frag_id: spec.frag_id, ptype: spec.ptype, label: spec.label, exts: norm_exts.as_ref(), ctx: spec.ctx, buf_len: spec.buf_len };
        let bl = spec.buf_len;
        if self.buf.len() < bl {
            self.buf.resize(bl, 0);
        }
        self.buf[..bl].copy_from_slice(&self.master[..bl]);
        let snapshot = self.enc.clone();
        let meta = EncapMetadata::new(spec.ptype, spec.label);
        let crate_exts = spec.exts.and_then(|e| e.to_crate());
        if spec.func == Func::EncapExt && crate_exts.is_none() {
            return CallOut { res: Err("harness: extension list not constructible".into()), n: 0, ctx: None, parsed: None, payload_len: 0 };
        }
        let sig = |clause: &str| format!("{}:{}:{}:{}", clause, spec.func.name(), label_kind(&spec.label), size_class(spec.pdu.len(), bl));
        rep.eval();
        let res: EncRes = {
            let enc = &mut self.enc;
            let buf = &mut self.buf[..bl];
            match spec.func {
                Func::Encap => guard(|| enc.encap(spec.pdu, spec.frag_id, meta, buf)),
                Func::EncapExt => {
                    let x = crate_exts.clone().unwrap();
                    guard(|| enc.encap_ext(spec.pdu, spec.frag_id, meta, buf, x))
                }
                Func::Frag => {
                    let c = spec.ctx.unwrap();
                    guard(|| enc.encap_frag(spec.pdu, &c, buf))
                }
            }
        };
        let mut out = CallOut { res, n: 0, ctx: None, parsed: None, payload_len: 0 };
        let plen = spec.pdu.len();

        // ------------------------------------------------------------------ C09: totality + atomicity
        // C11: after the first fragment, ANY buffer of at least 7 bytes makes progress (an end packet or >= 1
        // payload byte): a continuation call on a valid context with such a buffer may neither fail nor panic
        if mask & O_C11 != 0 && spec.func == Func::Frag && bl >= 7 && spec.pdu.len() <= 65535 {
            let c = spec.ctx.unwrap();
            if (c.len_pdu_frag() as usize) <= spec.pdu.len() && !out.ok() {
                let what = match &out.res {
                    Err(_) => "panicked",
                    _ => "was refused",
                };
                rep.violation("C11", sig(&format!("buffer-of-7-or-more-{}", if out.res.is_err() { "panics" } else { "rejected" })), || format!("{} {}: {}", Self::describe(spec), what, enc_res_str(&out.res)), replay);
            }
        }
        // C11: "a buffer that cannot carry anything useful is REJECTED": a continuation call on a valid context
        // that panics on a short buffer is not a rejection
        if mask & O_C11 != 0 && spec.func == Func::Frag && bl < 7 && spec.pdu.len() <= 65535 {
            let c = spec.ctx.unwrap();
            if (c.len_pdu_frag() as usize) <= spec.pdu.len() {
                if let Err(p) = &out.res {
                    rep.violation("C11", sig("useless-buffer-panics-instead-of-being-rejected"), || format!("{} panicked: {}", Self::describe(spec), p), replay);
                }
            }
        }
        match &out.res {
            Err(p) => {
                if mask & O_C09 != 0 {
                    rep.violation("C09", sig(&format!("panic:{}", panic_class(p))), || format!("{} panicked: {}", Self::describe(spec), p), replay);
                }
                rep.count("sender.panic");
                // the encapsulator may be in any state now; restore so that the history can go on
                self.enc = snapshot;
                return out;
            }
            Ok(Err(e)) => {
                rep.count(&format!("sender.err.{:?}", e));
                if mask & O_C09 != 0 {
                    if self.buf[..bl] != self.master[..bl] {
                        let at = (0..bl).find(|&i| self.buf[i] != self.master[i]).unwrap();
                        rep.violation("C09", sig("err-buffer-modified"), || format!("{} returned {:?} but modified the output buffer (first change at byte {})", Self::describe(spec), e, at), replay);
                    }
                    if self.enc != snapshot {
                        rep.violation("C09", sig("err-state-changed"), || format!("{} returned {:?} but the encapsulator changed: before {:?} after {:?}", Self::describe(spec), e, snapshot, self.enc), replay);
                    }
                    // behavioural twin: the clone taken before the failed call and the real object
                    // must emit identical packets for the same follow-up calls
                    let mut twin = snapshot.clone();
                    let mut real = self.enc.clone();
                    let follow: [(Label, usize); 3] = [(spec.label, 40), (Label::SixBytesLabel([9, 8, 7, 6, 5, 4]), 40), (spec.label, 40)];
                    for (i, (l, b)) in follow.iter().enumerate() {
                        if *l == Label::SixBytesLabel([0; 6]) {
                            continue;
                        }
                        let m = EncapMetadata::new(0x0800, *l);
                        let mut b1 = vec![0u8; *b];
                        let mut b2 = vec![0u8; *b];
                        let r1 = guard(|| twin.encap(b"follow-up", 1, m, &mut b1));
                        let r2 = guard(|| real.encap(b"follow-up", 1, m, &mut b2));
                        if enc_res_str(&r1) != enc_res_str(&r2) || b1 != b2 {
                            rep.violation("C09", sig("err-twin-diverged"), || format!("after {} = {:?}, follow-up call {} (label {}) differs from the never-called twin: twin {} {}, real {} {}", Self::describe(spec), e, i, label_str(l), enc_res_str(&r1), hex_short(&b1, 40), enc_res_str(&r2), hex_short(&b2, 40)), replay);
                            break;
                        }
                    }
                }
            }
            Ok(Ok(_)) => {
                rep.count("sender.ok");
            }
        }
        // mandatory errors (C09)
        if mask & O_C09 != 0 {
            let is_ok = out.ok();
            if spec.func != Func::Frag {
                if is_ok && spec.label == Label::SixBytesLabel([0; 6]) {
                    rep.violation("C09", sig("accepts-zero-label"), || format!("{} produced a packet for the zero 6-byte label", Self::describe(spec)), replay);
                }
                if is_ok && (0x0100..=0x05FF).contains(&spec.ptype) {
                    rep.violation("C09", sig("accepts-reserved-ptype"), || format!("{} produced a packet for protocol type {:#06x}", Self::describe(spec), spec.ptype), replay);
                }
                if is_ok && plen + 2 > 65535 {
                    rep.violation("C09", sig("accepts-oversize-pdu"), || format!("{} produced a packet although the PDU exceeds the 16-bit total length", Self::describe(spec)), replay);
                }
            } else if is_ok && spec.ctx.unwrap().len_pdu_frag() as usize > plen {
                rep.violation("C09", sig("accepts-context-beyond-pdu"), || format!("{} produced a packet for a context pointing beyond the PDU", Self::describe(spec)), replay);
            }
        }

        // ------------------------------------------------------------------ C18: preview differential
        if mask & O_C18 != 0 && spec.func != Func::EncapExt {
            self.check_preview(spec, &out.res, &snapshot, rep, replay, mask);
        }

        let status = match &out.res {
            Ok(Ok(s)) => s,
            _ => return out,
        };
        let (n, ctx) = status_parts(status);
        out.ctx = ctx;

        // ------------------------------------------------------------------ C06: well-formedness
        let c06 = mask & O_C06 != 0;
        if n < 2 || n > bl {
            if c06 {
                rep.violation("C06", sig("reported-length-out-of-buffer"), || format!("{} reported length {} for a buffer of {} bytes", Self::describe(spec), n, bl), replay);
            }
            return out;
        }
        out.n = n;
        // a start packet whose PDU + protocol type + label as written does not fit the 16-bit total length
        // must have been refused (C09), and its total-length field cannot be right (C06)
        if spec.func != Func::Frag {
            let w0 = u16::from_be_bytes([self.buf[0], self.buf[1]]);
            let ll_w = wire::lt_len(wire::lt_of_word(w0));
            if plen + 2 + ll_w > 65535 {
                if mask & O_C09 != 0 {
                    rep.violation("C09", sig("accepts-oversize-pdu"), || format!("{} = {:?}: PDU ({}) + protocol type + label as written ({}) exceeds the 16-bit total length, an error was mandatory", Self::describe(spec), status, plen, ll_w), replay);
                }
                if c06 {
                    rep.violation("C06", sig("total-length-not-representable"), || format!("{} = {:?}: total length {} does not fit 16 bits", Self::describe(spec), status, plen + 2 + ll_w), replay);
                }
            }
        }
        if c06 && self.buf[n..bl] != self.master[n..bl] {
            let at = (n..bl).find(|&i| self.buf[i] != self.master[i]).unwrap();
            rep.violation("C06", sig("writes-beyond-reported-length"), || format!("{} reported {} bytes but modified byte {} of the buffer", Self::describe(spec), n, at), replay);
        }
        // table with full knowledge of what the caller intended
        let table = match spec.exts {
            Some(e) if spec.func == Func::EncapExt => {
                let mut t = e.table();
                // a protocol type below 0x0100 that is not the id of the chain's final extension reads, on the
                // wire, as one more (final, data-less) mandatory extension: the same view as for `encap`
                if spec.ptype < 0x100 && t.get(spec.ptype) == Mand::Unknown {
                    t.t[spec.ptype as usize] = Mand::Final(0);
                }
                t
            }
            _ => {
                let mut t = MandTable::none();
                if spec.ptype < 0x100 {
                    t.t[spec.ptype as usize] = Mand::Final(0);
                }
                t
            }
        };
        let parsed = wire::parse(&self.buf[..bl], &table);
        let p = match parsed {
            Ok(p) => p,
            Err(m) => {
                if mask & O_C11 != 0 {
                    rep.violation("C11", sig("emitted-bytes-are-not-a-fragment"), || format!("{} = {:?}: the emitted bytes do not parse as a GSE packet ({:?}), so neither a payload advance nor a final CRC-bearing packet can be established", Self::describe(spec), status, m), replay);
                }
                if c06 {
                    let b = self.buf[..std::cmp::min(n, bl)].to_vec();
                    rep.violation("C06", sig(&format!("unparseable:{:?}", m).replace(|c: char| c.is_ascii_digit(), "")), || format!("{} = {:?}: emitted bytes do not parse under TS 102 606 ({:?}): {}", Self::describe(spec), status, m, hex_short(&b, 64)), replay);
                }
                return out;
            }
        };
        out.payload_len = p.payload.len();
        if c06 {
            let pkt = self.buf[..n].to_vec();
            let mut bad: Vec<(String, String)> = Vec::new();
            if p.pkt_len != n {
                bad.push(("gse-length-vs-reported".into(), format!("GSE length field {} + 2 != reported length {}", p.gse_len, n)));
            }
            let want_kind = match (spec.func, ctx.is_some()) {
                (Func::Frag, true) => Kind::Inter,
                (Func::Frag, false) => Kind::End,
                (_, true) => Kind::First,
                (_, false) => Kind::Complete,
            };
            if p.kind != want_kind {
                bad.push(("start-end-bits".into(), format!("S/E bits say {:?} but the status/function imply {:?}", p.kind, want_kind)));
            }
            match spec.func {
                Func::Frag => {
                    if p.lt != 3 {
                        bad.push(("label-type-bits".into(), format!("label type bits {} on a non-first fragment (must be 11)", p.lt)));
                    }
                    if p.frag_id != Some(spec.ctx.unwrap().frag_id()) {
                        bad.push(("frag-id".into(), format!("frag id {:?} != context's {}", p.frag_id, spec.ctx.unwrap().frag_id())));
                    }
                }
                _ => {
                    let lt_passed = lt_of_label(&spec.label);
                    if p.lt != lt_passed && p.lt != 3 {
                        bad.push(("label-type-bits".into(), format!("label type bits {} match neither the label passed ({}) nor re-use", p.lt, lt_passed)));
                    }
                    if p.lt == lt_passed && p.label != label_bytes(&spec.label) {
                        bad.push(("label-bytes".into(), format!("label bytes {} != label passed {}", crate::rng::hex(&p.label), label_str(&spec.label))));
                    }
                    if p.kind == Kind::First && p.frag_id != Some(spec.frag_id) {
                        bad.push(("frag-id".into(), format!("frag id {:?} != {}", p.frag_id, spec.frag_id)));
                    }
                }
            }
            // byte-exact comparison with the independent serialiser
            if bad.is_empty() {
                let k = p.payload.len();
                let pos = spec.ctx.map(|c| c.len_pdu_frag() as usize).unwrap_or(0);
                if pos + k > plen {
                    bad.push(("payload-beyond-pdu".into(), format!("packet carries {} payload bytes from position {} of a {}-byte PDU", k, pos, plen)));
                } else {
                    let empty: Vec<ExtEntry> = Vec::new();
                    let (exts, final_ext) = match spec.exts {
                        Some(e) if spec.func == Func::EncapExt => (&e.entries, e.final_ext),
                        _ => (&empty, false),
                    };
                    let total_expected = (2 + wire::lt_len(p.lt) + plen) as u16;
                    let f = wire::Fields {
                        kind: p.kind,
                        lt: p.lt,
                        frag_id: match spec.func {
                            Func::Frag => spec.ctx.unwrap().frag_id(),
                            _ => spec.frag_id,
                        },
                        // with extensions the property does not fix the total length: take the observed one
                        total_len: if exts.is_empty() { total_expected } else { p.total_len.unwrap_or(0) },
                        ptype: spec.ptype,
                        label: &p.label,
                        exts,
                        final_ext,
                        payload: &spec.pdu[pos..pos + k],
                        crc: spec.ctx.map(|c| c.crc()).unwrap_or(0),
                    };
                    let want = wire::serialise(&f);
                    if want != pkt {
                        let at = (0..std::cmp::min(want.len(), pkt.len())).find(|&i| want[i] != pkt[i]).unwrap_or(std::cmp::min(want.len(), pkt.len()));
                        let clause = if p.kind == Kind::First && exts.is_empty() && p.total_len != Some(total_expected) {
                            "total-length".to_string()
                        } else if p.kind == Kind::Complete && k != plen {
                            "complete-packet-truncates-pdu".to_string()
                        } else {
                            "bytes-differ-from-reference-serialisation".to_string()
                        };
                        bad.push((clause, format!("emitted {} != reference serialisation {} (first difference at byte {})", hex_short(&pkt, 64), hex_short(&want, 64), at)));
                    }
                }
            }
            for (clause, d) in bad {
                rep.violation("C06", sig(&clause), || format!("{} = {:?}: {}", Self::describe(spec), status, d), replay);
            }
            rep.count(&format!("c06.parsed.{}", p.kind.name()));
        }

        // ------------------------------------------------------------------ C11: progress / partition
        if mask & O_C11 != 0 {
            let k = p.payload.len();
            match (spec.func, ctx) {
                (Func::Frag, Some(c2)) => {
                    let c1 = spec.ctx.unwrap();
                    if k == 0 {
                        rep.violation("C11", sig("empty-intermediate-fragment"), || format!("{} = {:?}: a fragment with no payload and no CRC was emitted", Self::describe(spec), status), replay);
                    }
                    if c2.len_pdu_frag() as usize != c1.len_pdu_frag() as usize + k || c2.frag_id() != c1.frag_id() || c2.crc() != c1.crc() {
                        rep.violation("C11", sig("context-advance"), || format!("{} = {:?}: packet carries {} payload bytes, context went from pos {} to {} (id {}->{}, crc {:#x}->{:#x})", Self::describe(spec), status, k, c1.len_pdu_frag(), c2.len_pdu_frag(), c1.frag_id(), c2.frag_id(), c1.crc(), c2.crc()), replay);
                    }
                    let pos = c1.len_pdu_frag() as usize;
                    if pos + k > plen || self.buf[p.payload.clone()] != spec.pdu[pos..pos + k] {
                        rep.violation("C11", sig("payload-not-the-next-slice"), || format!("{} = {:?}: payload is not pdu[{}..{}]", Self::describe(spec), status, pos, pos + k), replay);
                    }
                }
                (Func::Frag, None) => {
                    let c1 = spec.ctx.unwrap();
                    let pos = c1.len_pdu_frag() as usize;
                    if p.kind != Kind::End || pos + k != plen || self.buf[p.payload.clone()] != spec.pdu[pos..] {
                        rep.violation("C11", sig("end-packet-not-the-rest"), || format!("{} = {:?}: final packet carries {} bytes from position {} of {} (kind {:?})", Self::describe(spec), status, k, pos, plen, p.kind), replay);
                    } else if p.crc != Some(c1.crc()) {
                        rep.violation("C11", sig("end-packet-crc"), || format!("{} = {:?}: trailer {:?} != context CRC {:#010x}", Self::describe(spec), status, p.crc, c1.crc()), replay);
                    }
                }
                (_, Some(c2)) => {
                    if c2.len_pdu_frag() as usize != k || c2.frag_id() != spec.frag_id {
                        rep.violation("C11", sig("first-context"), || format!("{} = {:?}: first fragment carries {} payload bytes, context says {} (id {})", Self::describe(spec), status, k, c2.len_pdu_frag(), c2.frag_id()), replay);
                    }
                    if k > plen || self.buf[p.payload.clone()] != spec.pdu[..k] {
                        rep.violation("C11", sig("first-payload-not-a-prefix"), || format!("{} = {:?}: payload is not pdu[..{}]", Self::describe(spec), status, k), replay);
                    }
                }
                _ => {}
            }
        }
        out.parsed = Some(p);
        out
    }

    fn check_preview(&self, spec: &CallSpec, res: &EncRes, snapshot: &Encapsulator<DefaultCrc>, rep: &mut Report, replay: &dyn Fn() -> String, mask: u32) {
        let bl = spec.buf_len;
        let sig = |clause: &str| format!("{}:{}:{}:{}", clause, spec.func.name(), label_kind(&spec.label), size_class(spec.pdu.len(), bl));
        let meta = EncapMetadata::new(spec.ptype, spec.label);
        let pbuf = &self.master[..bl];
        let pv = match spec.func {
            Func::Encap => guard(|| encap_preview(spec.pdu, meta, pbuf)),
            _ => {
                let c = spec.ctx.unwrap();
                guard(|| encap_frag_preview(spec.pdu, &c, pbuf))
            }
        };
        let pv = match pv {
            Ok(v) => v,
            Err(p) => {
                if mask & O_C09 != 0 {
                    rep.violation("C09", sig(&format!("preview-panic:{}", panic_class(&p))), || format!("preview of {} panicked: {}", Self::describe(spec), p), replay);
                }
                rep.count("c18.preview-panic");
                return;
            }
        };
        // applies only when no re-use substitution can take place: compare against what the real
        // call does on an encapsulator without remembered label (the real result is used when the
        // snapshot is in that state; otherwise a fresh encapsulator is driven)
        let real: EncRes = if spec.func == Func::Frag {
            match res {
                Err(_) => {
                    rep.count("c18.skipped-real-panic");
                    return;
                }
                Ok(r) => Ok(clone_res(r)),
            }
        } else {
            let mut fresh = snapshot.clone();
            fresh.reset_last_label();
            let mut b = self.master[..bl].to_vec();
            match guard(|| fresh.encap(spec.pdu, spec.frag_id, meta, &mut b)) {
                Err(_) => {
                    rep.count("c18.skipped-real-panic");
                    return;
                }
                Ok(r) => Ok(r),
            }
        };
        rep.count("c18.compared");
        // the call really made (on the encapsulator as it was): whenever it succeeded WITHOUT substituting a re-use
        // label for a 3- / 6-byte label, the preview must have announced its kind and length as well
        if spec.func != Func::Frag {
            if let Ok(Ok(s)) = res {
                let (n, ctx) = status_parts(s);
                if n >= 2 && n <= bl {
                    let lt_emitted = wire::lt_of_word(u16::from_be_bytes([self.buf[0], self.buf[1]]));
                    let substituted = matches!(spec.label, Label::SixBytesLabel(_) | Label::ThreeBytesLabel(_)) && lt_emitted == 3;
                    if !substituted {
                        rep.count("c18.compared-with-the-call-made");
                        match &pv {
                            Ok(v) => {
                                let want_kind = if ctx.is_some() { Kind::First } else { Kind::Complete };
                                if kind_of_preview_debug(&format!("{:?}", v.pkt_type())) != Some(want_kind) || v.pkt_len() as usize != n {
                                    rep.violation("C18", sig("differs-from-the-call-made"), || format!("preview of {} says {:?} of {} bytes; the call itself (no re-use substitution: label type bits {}) produced {:?}", Self::describe(spec), v.pkt_type(), v.pkt_len(), lt_emitted, s), replay);
                                }
                            }
                            Err(e) => rep.violation("C18", sig("preview-err-call-made-ok"), || format!("preview of {} = {:?}; the call itself (no re-use substitution) produced {:?}", Self::describe(spec), e, s), replay),
                        }
                    }
                }
            }
        }
        match (&pv, real.as_ref().unwrap()) {
            (Err(e1), Err(e2)) => {
                if e1 != e2 {
                    rep.violation("C18", sig("different-error"), || format!("preview of {} = {:?}, real call = {:?}", Self::describe(spec), e1, e2), replay);
                }
                rep.count("c18.both-err");
            }
            (Err(e1), Ok(s)) => rep.violation("C18", sig("preview-err-real-ok"), || format!("preview of {} = {:?}, real call = {:?}", Self::describe(spec), e1, s), replay),
            (Ok(v), Err(e2)) => rep.violation("C18", sig("preview-ok-real-err"), || format!("preview of {} = {:?}, real call = {:?}", Self::describe(spec), v, e2), replay),
            (Ok(v), Ok(s)) => {
                rep.count("c18.both-ok");
                let (n, ctx) = status_parts(s);
                let want_kind = match (spec.func, ctx.is_some()) {
                    (Func::Frag, true) => Kind::Inter,
                    (Func::Frag, false) => Kind::End,
                    (_, true) => Kind::First,
                    (_, false) => Kind::Complete,
                };
                let pk = kind_of_preview_debug(&format!("{:?}", v.pkt_type()));
                if pk != Some(want_kind) {
                    rep.violation("C18", sig("different-kind"), || format!("preview of {} says {:?}, real call produced {:?} ({:?})", Self::describe(spec), v.pkt_type(), want_kind, s), replay);
                }
                if v.pkt_len() as usize != n {
                    rep.violation("C18", sig("different-packet-length"), || format!("preview of {} says packet length {}, real call reported {}", Self::describe(spec), v.pkt_len(), n), replay);
                }
                if spec.func == Func::Frag {
                    // payload length actually written by the real call
                    // (read off the emitted packet: GSE length minus frag id and, for an end packet, CRC)
                    let gl = (u16::from_be_bytes([self.buf[0], self.buf[1]]) & 0x0FFF) as usize;
                    let written = match ctx {
                        Some(_) => gl.wrapping_sub(1),
                        None => gl.wrapping_sub(5),
                    };
                    if v.pdu_len() != written {
                        rep.violation("C18", sig("different-payload-length"), || format!("preview of {} says payload {}, real call wrote {}", Self::describe(spec), v.pdu_len(), written), replay);
                    }
                }
            }
        }
    }
}

fn clone_res(r: &Result<EncapStatus, EncapError>) -> Result<EncapStatus, EncapError> {
    match r {
        Ok(EncapStatus::CompletedPkt(n)) => Ok(EncapStatus::CompletedPkt(*n)),
        Ok(EncapStatus::FragmentedPkt(n, c)) => Ok(EncapStatus::FragmentedPkt(*n, *c)),
        Err(e) => Err(match e {
            EncapError::ErrorSizeBuffer => EncapError::ErrorSizeBuffer,
            EncapError::ErrorPduLength => EncapError::ErrorPduLength,
            EncapError::ErrorProtocolType => EncapError::ErrorProtocolType,
            EncapError::ErrorInvalidLabel => EncapError::ErrorInvalidLabel,
            EncapError::ErrorNoExtensionFound => EncapError::ErrorNoExtensionFound,
            EncapError::ErrorFinalMandatoryExtensionHeader => EncapError::ErrorFinalMandatoryExtensionHeader,
        }),
    }
}

/// random extension chain (DESIGN §5 C13): 1..=4 entries from every H-LEN class, known non-final
/// mandatory extensions with 0..=8 data bytes, optionally a final mandatory extension in last position
pub fn gen_chain(rng: &mut Rng, n: usize, final_ext: bool) -> ExtSpec {
    let mut entries = Vec::new();
    let mut used_mand: Vec<u16> = Vec::new();
    for i in 0..n {
        let last = i + 1 == n;
        if last && final_ext {
            let mut id;
            loop {
                id = rng.below(0x100) as u16;
                if !used_mand.contains(&id) {
                    break;
                }
            }
            let dl = rng.below(9);
            entries.push(ExtEntry { id, data: rng.bytes(dl) });
        } else if rng.chance(1, 4) {
            // non-final mandatory with a fresh id (one table entry per id)
            let mut id;
            loop {
                id = rng.below(0x100) as u16;
                if !used_mand.contains(&id) {
                    break;
                }
            }
            used_mand.push(id);
            // mostly 0..=8 data bytes; rarely a large block (lengths around the 8-bit, 12-bit and 16-bit limits)
            let dl = if rng.chance(1, 40) { [255usize, 256, 300, 4089, 4096, 65535, 65536, 70000][rng.below(8)] } else { rng.below(9) };
            entries.push(ExtEntry { id, data: rng.bytes(dl) });
        } else {
            let hlen = 1 + rng.below(5);
            let id = ((hlen as u16) << 8) | rng.below(256) as u16;
            entries.push(ExtEntry { id, data: rng.bytes(2 * hlen - 2) });
        }
    }
    ExtSpec { entries, final_ext }
}
