//! Online receiver-side monitors evaluated on (bytes given to decap, result) pairs:
//!  * C03 oracle 1 — a PDU is delivered at an end fragment only if the arrival-order concatenation
//!    of the accepted fragments has the announced length and a matching CRC-32, and what is
//!    delivered is exactly that concatenation and the first fragment's fields;
//!  * C04 clause 3 — a re-use label is never resolved to anything but the label carried by the
//!    nearest preceding start/complete packet since the last reset;
//!  * C05 consumed-length bounds.
//! The monitor keeps its own reassembly state from the *received bytes*, parsed by wire.rs.

use crate::refcrc::FastRef;
use crate::report::Report;
use crate::rng::hex_short;
use crate::util::*;
use crate::wire::{self, Kind, MandTable};
use dvb_gse_rust::gse_decap::DecapStatus;
use dvb_gse_rust::label::Label;

pub struct RxCtx {
    pub total_len: u16,
    pub ptype: u16,
    pub wire_label: Vec<u8>,
    pub lt: u8,
    pub label_reported: Label,
    pub ext_ids: Vec<u16>,
    pub payload: Vec<u8>,
}

pub struct RxSpec {
    pub table: MandTable,
    pub ctx: Vec<Option<RxCtx>>,
    /// label carried by the nearest preceding S=1 packet (None: no resolution possible)
    pub prev_label: Option<Label>,
    pub fr: FastRef,
    pub delivered_fragmented: u64,
    pub delivered_complete: u64,
}

pub const RX_C03: u32 = 1;
pub const RX_C04: u32 = 2;
pub const RX_C05: u32 = 4;

impl RxSpec {
    pub fn new(table: MandTable) -> Self {
        let mut ctx = Vec::new();
        for _ in 0..256 {
            ctx.push(None);
        }
        RxSpec { table, ctx, prev_label: None, fr: FastRef::new(), delivered_fragmented: 0, delivered_complete: 0 }
    }

    pub fn reset_label(&mut self) {
        self.prev_label = None;
    }

    /// Observe one decap call. `class` is an input-class string used in violation signatures.
    pub fn observe(&mut self, input: &[u8], res: &DecRes, mask: u32, class: &str, rep: &mut Report, replay: &dyn Fn() -> String) {
        // ---- C05: consumed-length bounds
        if mask & RX_C05 != 0 {
            match res {
                Err(p) => rep.violation("C05", format!("decap-panic:{}:{}", crate::mon::panic_class(p), class), || format!("decap panicked on {} ({} bytes): {}", hex_short(input, 48), input.len(), p), replay),
                Ok(r) => {
                    let consumed = match r {
                        Ok((_, n)) => *n,
                        Err((_, n)) => *n,
                    };
                    if consumed > input.len() {
                        rep.violation("C05", format!("consumed-beyond-buffer:{}", class), || format!("decap consumed {} of a {}-byte buffer {}: {}", consumed, input.len(), hex_short(input, 48), dec_res_str(res)), replay);
                    } else if !input.is_empty() && consumed < std::cmp::min(2, input.len()) {
                        rep.violation("C05", format!("no-progress:{}", class), || format!("decap consumed {} of a {}-byte buffer {}: {}", consumed, input.len(), hex_short(input, 48), dec_res_str(res)), replay);
                    }
                }
            }
        }
        let parsed = wire::parse(input, &self.table);
        let header_kind = if input.len() >= 2 {
            let w = u16::from_be_bytes([input[0], input[1]]);
            if wire::is_padding_word(w) {
                None
            } else {
                Some(Kind::from_word(w))
            }
        } else {
            None
        };
        // ---- C04 clause 3 + bookkeeping of prev_label
        let is_start = matches!(header_kind, Some(Kind::Complete) | Some(Kind::First));
        let accepted_meta = match res {
            Ok(Ok((DecapStatus::CompletedPkt(_, m), _))) => Some(m.clone()),
            Ok(Ok((DecapStatus::FragmentedPkt(m), _))) => Some(m.clone()),
            _ => None,
        };
        if is_start {
            match &parsed {
                Ok(p) => {
                    if p.lt == 3 {
                        if let Some(m) = &accepted_meta {
                            if mask & RX_C04 != 0 {
                                match self.prev_label {
                                    None => rep.violation("C04", format!("reuse-resolved-without-predecessor:{}", class), || format!("re-use packet {} accepted with label {} although no preceding start/complete packet of this frame carries a label", hex_short(input, 32), label_str(&m.label())), replay),
                                    Some(l) if l != m.label() => rep.violation("C04", format!("reuse-resolved-to-wrong-label:{}", class), || format!("re-use packet {} attributed to {} but the nearest preceding start/complete packet carried {}", hex_short(input, 32), label_str(&m.label()), label_str(&l)), replay),
                                    _ => {
                                        rep.count("rx.c04.reuse-resolved-ok");
                                    }
                                }
                            }
                        }
                        // prev_label unchanged (recursively the same label)
                    } else if p.lt == 2 {
                        self.prev_label = None;
                    } else {
                        self.prev_label = Some(label_from_wire(p.lt, &p.label));
                    }
                }
                Err(_) => {
                    // malformed start/complete packet: no resolution through it.  If it was
                    // nevertheless accepted with a 3/6-byte label read from the bytes, follow the
                    // implementation only when the label bytes are unambiguous.
                    self.prev_label = None;
                    if let (Some(m), true) = (&accepted_meta, input.len() >= 2) {
                        let w = u16::from_be_bytes([input[0], input[1]]);
                        let lt = wire::lt_of_word(w);
                        if lt == 3 && mask & RX_C04 != 0 {
                            rep.violation("C04", format!("reuse-resolved-in-malformed-packet:{}", class), || format!("malformed re-use packet {} accepted with label {}", hex_short(input, 32), label_str(&m.label())), replay);
                        }
                    }
                }
            }
        }

        // ---- C03 oracle 1
        let c03 = mask & RX_C03 != 0;
        match res {
            Ok(Ok((DecapStatus::FragmentedPkt(m), _))) => match &parsed {
                Ok(p) if p.kind == Kind::First => {
                    let id = p.frag_id.unwrap() as usize;
                    self.ctx[id] = Some(RxCtx {
                        total_len: p.total_len.unwrap(),
                        ptype: p.ptype.unwrap(),
                        wire_label: p.label.clone(),
                        lt: p.lt,
                        label_reported: m.label(),
                        ext_ids: p.exts.iter().map(|e| e.id).collect(),
                        payload: input[p.payload.clone()].to_vec(),
                    });
                }
                Ok(p) if p.kind == Kind::Inter => {
                    let id = p.frag_id.unwrap() as usize;
                    match &mut self.ctx[id] {
                        Some(c) => c.payload.extend_from_slice(&input[p.payload.clone()]),
                        None => {
                            rep.count("rx.c03.fragment-accepted-without-first");
                        }
                    }
                }
                _ => {
                    rep.count("rx.c03.fragmented-status-for-non-fragment");
                }
            },
            Ok(Ok((DecapStatus::CompletedPkt(buf, m), _))) => match &parsed {
                Ok(p) if p.kind == Kind::End => {
                    self.delivered_fragmented += 1;
                    let id = p.frag_id.unwrap() as usize;
                    match self.ctx[id].take() {
                        None => {
                            if c03 {
                                rep.violation("C03", format!("delivery-without-first:{}", class), || format!("end fragment {} delivered a PDU although no first fragment of id {} was accepted", hex_short(input, 32), id), replay);
                            }
                        }
                        Some(mut c) => {
                            c.payload.extend_from_slice(&input[p.payload.clone()]);
                            let mut bad: Vec<(&str, String)> = Vec::new();
                            if c.payload.len() + 2 + c.wire_label.len() != c.total_len as usize {
                                bad.push(("length-unverified", format!("concatenated payload {} + 2 + label {} != announced total length {}", c.payload.len(), c.wire_label.len(), c.total_len)));
                            }
                            let want = self.fr.gse(c.total_len, c.ptype, &c.wire_label, &c.payload);
                            if p.crc != Some(want) {
                                bad.push(("crc-unverified", format!("trailer {:#010x?} != CRC-32 {:#010x} of the received bytes", p.crc, want)));
                            }
                            if m.pdu_len() != c.payload.len() || buf.len() < c.payload.len() || buf[..c.payload.len()] != c.payload[..] {
                                let at = (0..std::cmp::min(buf.len(), c.payload.len())).find(|&i| buf[i] != c.payload[i]);
                                bad.push(("delivered-bytes-differ", format!("delivered {} bytes (buffer {}B), arrival-order concatenation has {} bytes; first difference at {:?}", m.pdu_len(), buf.len(), c.payload.len(), at)));
                            }
                            if m.protocol_type() != c.ptype {
                                bad.push(("delivered-type-differs", format!("delivered protocol type {:#06x}, first fragment carried {:#06x}", m.protocol_type(), c.ptype)));
                            }
                            if m.label() != c.label_reported || (c.lt < 2 && m.label() != label_from_wire(c.lt, &c.wire_label)) || (c.lt == 2 && m.label() != Label::Broadcast) {
                                bad.push(("delivered-label-differs", format!("delivered label {}, first fragment carried lt={} {} (reported {} at the first fragment)", label_str(&m.label()), c.lt, crate::rng::hex(&c.wire_label), label_str(&c.label_reported))));
                            }
                            let ids: Vec<u16> = m.extensions().iter().map(|e| e.id()).collect();
                            if ids != c.ext_ids {
                                bad.push(("delivered-extensions-differ", format!("delivered extension ids {:x?}, first fragment carried {:x?}", ids, c.ext_ids)));
                            }
                            if c03 {
                                for (clause, d) in bad {
                                    rep.violation("C03", format!("{}:{}", clause, class), || format!("PDU delivered at end fragment {} of id {}: {}", hex_short(input, 32), id, d), replay);
                                }
                            }
                        }
                    }
                }
                Ok(p) if p.kind == Kind::Complete => {
                    self.delivered_complete += 1;
                    let pl = &input[p.payload.clone()];
                    if m.pdu_len() != pl.len() || buf.len() < pl.len() || &buf[..pl.len()] != pl || m.protocol_type() != p.ptype.unwrap() {
                        rep.count("rx.complete-packet-delivery-differs");
                    }
                }
                _ => {
                    // the property speaks about end fragments: only an (unparseable) end fragment that delivers is judged
                    if c03 && header_kind == Some(Kind::End) {
                        rep.violation("C03", format!("delivery-for-malformed-end-fragment:{}", class), || format!("decap delivered a PDU for a malformed end fragment: {} -> {}", hex_short(input, 48), dec_res_str(res)), replay);
                    } else {
                        rep.count("rx.delivery-for-non-deliverable-bytes");
                    }
                }
            },
            Ok(Err(_)) => {
                // "...and of ALL later fragments with that id": a well-formed intermediate / end fragment that
                // the receiver REJECTS still belongs to the arrival-order concatenation.  Its payload is appended
                // to the reference context, so a later delivery that leaves these bytes out is flagged.
                // A first fragment that arrived completely (the whole announced packet is in the buffer and the
                // fixed fields frag id / total length / type / label fit in it) but is REJECTED is still "the
                // most recent first fragment of that fragment id": whatever train was open on the id cannot be
                // completed by later fragments any more (only with the bundled memory, which is what C03 uses;
                // a memory that refuses new_frag may keep the old train).
                if c03 && header_kind == Some(Kind::First) && input.len() >= 2 {
                    let w = u16::from_be_bytes([input[0], input[1]]);
                    let gse_len = (w & 0x0FFF) as usize;
                    let ll = wire::lt_len(wire::lt_of_word(w));
                    if input.len() >= gse_len + 2 && gse_len >= 3 + 2 + ll {
                        let id = input[2] as usize;
                        if self.ctx[id].take().is_some() {
                            rep.count("rx.c03.train-abandoned-by-rejected-first-fragment");
                        }
                    }
                }
                if let Ok(p) = &parsed {
                    if p.kind == Kind::Inter || p.kind == Kind::End {
                        let id = p.frag_id.unwrap() as usize;
                        if let Some(c) = &mut self.ctx[id] {
                            if !p.payload.is_empty() {
                                c.payload.extend_from_slice(&input[p.payload.clone()]);
                                rep.count("rx.c03.rejected-fragment-kept-in-reference");
                            }
                        }
                    }
                }
            }
            _ => {}
        }
    }
}
