//! Building fragment trains with the real encapsulator (used as a traffic source by the receiver
//! side properties; the sender side properties drive the encapsulator themselves).

use crate::mon::guard;
use dvb_gse_rust::crc::CrcCalculator;
use dvb_gse_rust::gse_encap::{EncapMetadata, EncapStatus, Encapsulator};
use dvb_gse_rust::header_extension::Extension;

#[derive(Clone, Debug)]
pub struct Train {
    pub pkts: Vec<Vec<u8>>,
    /// true if the last packet completed the PDU
    pub complete: bool,
}

/// Encapsulate `pdu` into packets using the buffer sizes given by `sizes(i)` (i = packet index).
/// Buffers rejected with an error are skipped (up to 64 skips). Returns Err on panic or when
/// the sender does not finish within `max_pkts` packets.
pub fn build_train<C: CrcCalculator>(
    enc: &mut Encapsulator<C>,
    pdu: &[u8],
    frag_id: u8,
    meta: EncapMetadata,
    exts: Option<Vec<Extension>>,
    mut sizes: impl FnMut(usize) -> usize,
    max_pkts: usize,
) -> Result<Train, String> {
    let mut pkts = Vec::new();
    let mut i = 0usize;
    let mut skips = 0;
    // first call
    let mut ctx = loop {
        let n = sizes(i);
        i += 1;
        let mut buf = vec![0u8; n];
        let e = exts.clone();
        let r = guard(|| match e {
            Some(x) => enc.encap_ext(pdu, frag_id, meta, &mut buf, x),
            None => enc.encap(pdu, frag_id, meta, &mut buf),
        })?;
        match r {
            Ok(EncapStatus::CompletedPkt(l)) => {
                if l as usize > buf.len() {
                    return Err("reported length beyond buffer".into());
                }
                buf.truncate(l as usize);
                pkts.push(buf);
                return Ok(Train { pkts, complete: true });
            }
            Ok(EncapStatus::FragmentedPkt(l, c)) => {
                if l as usize > buf.len() {
                    return Err("reported length beyond buffer".into());
                }
                buf.truncate(l as usize);
                pkts.push(buf);
                break c;
            }
            Err(e) => {
                skips += 1;
                if skips > 64 {
                    return Err(format!("first call keeps failing: {:?}", e));
                }
            }
        }
    };
    loop {
        if pkts.len() >= max_pkts {
            return Ok(Train { pkts, complete: false });
        }
        let n = sizes(i);
        i += 1;
        let mut buf = vec![0u8; n];
        let r = guard(|| enc.encap_frag(pdu, &ctx, &mut buf))?;
        match r {
            Ok(EncapStatus::CompletedPkt(l)) => {
                if l as usize > buf.len() {
                    return Err("reported length beyond buffer".into());
                }
                buf.truncate(l as usize);
                pkts.push(buf);
                return Ok(Train { pkts, complete: true });
            }
            Ok(EncapStatus::FragmentedPkt(l, c)) => {
                if l as usize > buf.len() {
                    return Err("reported length beyond buffer".into());
                }
                buf.truncate(l as usize);
                pkts.push(buf);
                ctx = c;
            }
            Err(e) => {
                skips += 1;
                if skips > 64 {
                    return Err(format!("continuation keeps failing: {:?}", e));
                }
            }
        }
    }
}
