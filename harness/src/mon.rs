//! Monitor layer: everything that observes the crate through its public seams.
//!  * `guard` — catch_unwind with a silent hook that records message and location
//!  * `MonMem` — GseDecapMemory wrapper: event log, fault plan, shadow of saved contexts, quarantine
//!  * `RecCrc` — CrcCalculator wrapper recording the exact arguments
//!  * `TableMgr` — table driven MandatoryHeaderExtensionManager
//!  * `census` — clone-and-drain census of a SimpleGseMemory

use dvb_gse_rust::crc::{CrcCalculator, DefaultCrc};
use dvb_gse_rust::gse_decap::gse_decap_memory::MemoryContext;
use dvb_gse_rust::gse_decap::{DecapContext, DecapMemoryError, GseDecapMemory, SimpleGseMemory};
use dvb_gse_rust::header_extension::{MandatoryHeaderExt, MandatoryHeaderExtensionManager};
use std::cell::RefCell;
use std::panic::{catch_unwind, AssertUnwindSafe};
use std::rc::Rc;

use crate::wire::{Mand, MandTable};

thread_local! {
    static LAST_PANIC: RefCell<Option<String>> = RefCell::new(None);
}

pub fn install_panic_hook() {
    std::panic::set_hook(Box::new(|info| {
        let loc = info.location().map(|l| format!("{}:{}", l.file(), l.line())).unwrap_or_default();
        let msg = if let Some(s) = info.payload().downcast_ref::<&str>() {
            s.to_string()
        } else if let Some(s) = info.payload().downcast_ref::<String>() {
            s.clone()
        } else {
            "<non-string panic>".to_string()
        };
        if msg.contains("unsafe precondition") {
            // a non-unwinding panic of the standard library's unsafe-precondition checks: the process is about
            // to abort; leave the report on stderr for the driver (bin/check turns it into a violation)
            eprintln!("UB-CHECK: {} @ {}", msg, loc);
        }
        LAST_PANIC.with(|p| *p.borrow_mut() = Some(format!("{} @ {}", msg, loc)));
    }));
}

/// Run `f`; a panic becomes `Err(message @ location)`.
pub fn guard<T>(f: impl FnOnce() -> T) -> Result<T, String> {
    match catch_unwind(AssertUnwindSafe(f)) {
        Ok(v) => Ok(v),
        Err(_) => Err(LAST_PANIC.with(|p| p.borrow_mut().take()).unwrap_or_else(|| "<panic>".into())),
    }
}

/// Strip line numbers and paths so that panic classes are stable across refactorings:
/// keep only the message kind.
pub fn panic_class(msg: &str) -> String {
    let m = msg.split(" @ ").next().unwrap_or(msg);
    if m.contains("out of range") || m.contains("out of bounds") || m.contains("slice index") {
        "index-out-of-range".into()
    } else if m.contains("overflow") {
        "arithmetic-overflow".into()
    } else if m.contains("unwrap") {
        "unwrap-on-err".into()
    } else if m.contains("not yet implemented") || m.contains("not implemented") {
        "todo".into()
    } else if m.contains("unreachable") {
        "unreachable".into()
    } else if m.contains("divisor of zero") || m.contains("divide by zero") {
        "division-by-zero".into()
    } else if m.contains("copy_from_slice") || m.contains("length mismatch") || m.contains("slice lengths") {
        "slice-length-mismatch".into()
    } else {
        "other-panic".into()
    }
}

// ---------------------------------------------------------------------------------------------
// CRC recorder

#[derive(Clone, Debug, PartialEq, Eq)]
pub struct CrcCall {
    pub pdu: Vec<u8>,
    pub ptype: u16,
    pub total_len: u16,
    pub label: Vec<u8>,
    pub result: u32,
}

#[derive(Clone)]
pub struct RecCrc {
    pub log: Rc<RefCell<Vec<CrcCall>>>,
    pub on: bool,
}

impl RecCrc {
    pub fn new() -> Self {
        RecCrc { log: Rc::new(RefCell::new(Vec::new())), on: true }
    }
    pub fn off() -> Self {
        RecCrc { log: Rc::new(RefCell::new(Vec::new())), on: false }
    }
    pub fn take(&self) -> Vec<CrcCall> {
        std::mem::take(&mut *self.log.borrow_mut())
    }
}

impl PartialEq for RecCrc {
    fn eq(&self, _: &Self) -> bool {
        true
    }
}
impl Eq for RecCrc {}
impl std::fmt::Debug for RecCrc {
    fn fmt(&self, f: &mut std::fmt::Formatter<'_>) -> std::fmt::Result {
        write!(f, "RecCrc")
    }
}

impl CrcCalculator for RecCrc {
    fn calculate_crc32(&self, pdu: &[u8], protocol_type: u16, total_length: u16, label: &[u8]) -> u32 {
        let r = DefaultCrc {}.calculate_crc32(pdu, protocol_type, total_length, label);
        if self.on {
            self.log.borrow_mut().push(CrcCall { pdu: pdu.to_vec(), ptype: protocol_type, total_len: total_length, label: label.to_vec(), result: r });
        }
        r
    }
}

// ---------------------------------------------------------------------------------------------
// Mandatory extension manager driven by the same table the independent parser uses

#[derive(Clone)]
pub struct TableMgr {
    pub table: MandTable,
}

impl TableMgr {
    pub fn new(table: MandTable) -> Self {
        TableMgr { table }
    }
}

impl MandatoryHeaderExtensionManager for TableMgr {
    fn is_mandatory_header_id_known(&self, id: u16) -> MandatoryHeaderExt {
        // the manager is only ever asked about mandatory ids (below 0x0100): like a real table-driven manager it
        // looks at the low byte only.  (Were it asked about 0x0100 it would answer for id 0x00.)
        match self.table.get(id & 0x00FF) {
            Mand::Unknown => MandatoryHeaderExt::Unknown,
            Mand::Final(n) => MandatoryHeaderExt::Final(n.min(255) as u8),
            Mand::NonFinal(n) => MandatoryHeaderExt::NonFinal(n.min(255) as u8),
        }
    }
}

// ---------------------------------------------------------------------------------------------
// Memory wrapper

#[derive(Clone, Debug, PartialEq, Eq)]
pub enum MemOp {
    Provision,
    NewPdu,
    NewFrag,
    TakeFrag,
    SaveFrag,
}

#[derive(Clone, Debug, PartialEq, Eq)]
pub enum Fault {
    Underflow,
    /// provision: hand the buffer back as StorageOverflow(buf)
    Overflow,
    /// provision: hand the buffer back as BufferTooSmall(buf)
    TooSmall,
    UndefinedId,
    Corrupted,
}

#[derive(Clone, Debug)]
pub struct MemEvent {
    pub op: MemOp,
    pub frag_id: Option<u8>,
    /// length of the buffer crossing the boundary (identity = length in the conservation workloads)
    pub buf_len: Option<usize>,
    pub ok: bool,
    pub injected: bool,
}

/// Wrapper around any GseDecapMemory.
pub struct MonMem<M: GseDecapMemory> {
    pub inner: M,
    pub log: Vec<MemEvent>,
    pub log_on: bool,
    /// number of trait operations seen since `arm`
    pub ops: usize,
    /// fail operation number `fail_at` (0-based, counted from `arm`) with `fault`
    pub fail_at: Option<(usize, Fault)>,
    pub fired: bool,
    /// buffers consumed by an injected save_frag failure (the memory owns them)
    pub quarantine: Vec<Box<[u8]>>,
    /// shadow: frag ids for which a context was saved and not yet taken / replaced
    pub saved_ids: Vec<u8>,
    /// number of slots of the wrapped memory (0 = unknown); used only to retire shadow entries
    pub slots: usize,
}

impl<M: GseDecapMemory> MonMem<M> {
    pub fn wrap(inner: M) -> Self {
        MonMem { inner, log: Vec::new(), log_on: false, ops: 0, fail_at: None, fired: false, quarantine: Vec::new(), saved_ids: Vec::new(), slots: 0 }
    }
    pub fn arm(&mut self, fail_at: Option<(usize, Fault)>) {
        self.ops = 0;
        self.fail_at = fail_at;
        self.fired = false;
    }
    fn tick(&mut self, op: &MemOp) -> Option<Fault> {
        let n = self.ops;
        self.ops += 1;
        if let Some((k, f)) = &self.fail_at {
            if *k == n {
                // only faults the trait documents for this operation
                let applicable = match (op, f) {
                    (MemOp::Provision, Fault::Overflow) | (MemOp::Provision, Fault::TooSmall) => true,
                    (MemOp::NewPdu, Fault::Underflow) => true,
                    (MemOp::NewFrag, Fault::Underflow) => true,
                    (MemOp::TakeFrag, Fault::UndefinedId) => true,
                    (MemOp::SaveFrag, Fault::Corrupted) => true,
                    _ => false,
                };
                if applicable {
                    self.fired = true;
                    return Some(f.clone());
                }
            }
        }
        None
    }
    fn ev(&mut self, op: MemOp, frag_id: Option<u8>, buf_len: Option<usize>, ok: bool, injected: bool) {
        if self.log_on {
            self.log.push(MemEvent { op, frag_id, buf_len, ok, injected });
        }
    }
}

impl<M: GseDecapMemory> GseDecapMemory for MonMem<M> {
    fn new(max_frag_id: usize, max_pdu_size: usize, max_delay: usize, max_pdu_frag: usize) -> Self {
        let mut m = MonMem::wrap(M::new(max_frag_id, max_pdu_size, max_delay, max_pdu_frag));
        m.slots = max_frag_id;
        m
    }

    fn provision_storage(&mut self, storage: Box<[u8]>) -> Result<(), DecapMemoryError> {
        let len = storage.len();
        if let Some(f) = self.tick(&MemOp::Provision) {
            self.ev(MemOp::Provision, None, Some(len), false, true);
            return Err(match f {
                Fault::TooSmall => DecapMemoryError::BufferTooSmall(storage),
                _ => DecapMemoryError::StorageOverflow(storage),
            });
        }
        let r = self.inner.provision_storage(storage);
        self.ev(MemOp::Provision, None, Some(len), r.is_ok(), false);
        r
    }

    fn new_pdu(&mut self) -> Result<Box<[u8]>, DecapMemoryError> {
        if self.tick(&MemOp::NewPdu).is_some() {
            self.ev(MemOp::NewPdu, None, None, false, true);
            return Err(DecapMemoryError::StorageUnderflow);
        }
        let r = self.inner.new_pdu();
        let l = r.as_ref().ok().map(|b| b.len());
        self.ev(MemOp::NewPdu, None, l, r.is_ok(), false);
        r
    }

    fn new_frag(&mut self, context: DecapContext) -> Result<MemoryContext, DecapMemoryError> {
        let id = context.frag_id;
        if self.tick(&MemOp::NewFrag).is_some() {
            self.ev(MemOp::NewFrag, Some(id), None, false, true);
            return Err(DecapMemoryError::StorageUnderflow);
        }
        let r = self.inner.new_frag(context);
        if r.is_ok() && self.slots > 0 {
            let slots = self.slots;
            self.saved_ids.retain(|x| (*x as usize) % slots != (id as usize) % slots);
        }
        let l = r.as_ref().ok().map(|b| b.1.len());
        self.ev(MemOp::NewFrag, Some(id), l, r.is_ok(), false);
        r
    }

    fn take_frag(&mut self, frag_id: u8) -> Result<MemoryContext, DecapMemoryError> {
        if self.tick(&MemOp::TakeFrag).is_some() {
            self.ev(MemOp::TakeFrag, Some(frag_id), None, false, true);
            return Err(DecapMemoryError::UndefinedId);
        }
        let r = self.inner.take_frag(frag_id);
        if r.is_ok() {
            self.saved_ids.retain(|x| *x != frag_id);
        }
        let l = r.as_ref().ok().map(|b| b.1.len());
        self.ev(MemOp::TakeFrag, Some(frag_id), l, r.is_ok(), false);
        r
    }

    fn save_frag(&mut self, context: MemoryContext) -> Result<(), DecapMemoryError> {
        let id = context.0.frag_id;
        let len = context.1.len();
        if self.tick(&MemOp::SaveFrag).is_some() {
            self.ev(MemOp::SaveFrag, Some(id), Some(len), false, true);
            self.quarantine.push(context.1);
            return Err(DecapMemoryError::MemoryCorrupted);
        }
        let r = self.inner.save_frag(context);
        if r.is_ok() {
            self.saved_ids.retain(|x| *x != id);
            self.saved_ids.push(id);
        }
        self.ev(MemOp::SaveFrag, Some(id), Some(len), r.is_ok(), false);
        r
    }
}

// ---------------------------------------------------------------------------------------------
// Census of the bundled memory by clone-and-drain

#[derive(Clone, Debug, PartialEq, Eq)]
pub struct Census {
    /// lengths of free buffers
    pub free: Vec<usize>,
    /// (frag id, buffer length) of attached buffers
    pub attached: Vec<(u8, usize)>,
    /// true if the drained clone equals a fresh empty memory (the census found everything)
    pub complete: bool,
}

/// `slots`/`pdu_size` are the constructor parameters the memory was built with.
/// Probing order: every frag id 0..=255 once (`take_frag`), then the free list.
/// A correct memory answers `UndefinedId` without side effect for ids it does not hold, so the
/// probing order does not matter; a memory that destroys a context when probed with an aliasing
/// id would be caught by the completeness comparison of C17, not here: to be robust against it the
/// caller passes `hint` = ids it believes are saved, which are probed first.
pub fn census(mem: &SimpleGseMemory, slots: usize, pdu_size: usize, hint: &[u8]) -> Result<Census, String> {
    let mut c = mem.clone();
    let mut free = Vec::new();
    let mut attached = Vec::new();
    let r = guard(|| {
        if slots > 0 {
            for id in hint {
                if let Ok((ctx, buf)) = c.take_frag(*id) {
                    attached.push((ctx.frag_id, buf.len()));
                }
            }
            for id in 0..=255u8 {
                if let Ok((ctx, buf)) = c.take_frag(id) {
                    attached.push((ctx.frag_id, buf.len()));
                }
            }
        }
        while let Ok(b) = c.new_pdu() {
            free.push(b.len());
            if free.len() > 100_000 {
                break;
            }
        }
    });
    if let Err(p) = r {
        return Err(p);
    }
    let fresh = SimpleGseMemory::new(slots, pdu_size, 0, 0);
    let complete = c == fresh;
    free.sort_unstable();
    attached.sort_unstable();
    Ok(Census { free, attached, complete })
}
