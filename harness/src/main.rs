#![allow(dead_code, unused_imports, unused_variables, clippy::all)]
//! gsemon — runtime monitors for dvb_gse_rust (see /verif/DESIGN.md).
//!
//! usage: gsemon <PROPERTY> <quick|thorough> --seed N --profile NAME --out FILE [--threads T]
//!        gsemon <PROPERTY> replay --gen G --key K --seed N --tier T --profile NAME --out FILE
//!
//! Every property module exposes a list of *generators*; a generator maps a key (0..count) to
//! one deterministic case (or a small batch), runs the real crate on it and evaluates the
//! property's oracle on what was observed.  The framework shards keys over worker threads.

mod hostile;
mod mon;
mod props;
mod refcrc;
mod report;
mod rng;
mod rxspec;
mod sender;
mod train;
mod util;
mod wire;

use report::Report;
use std::time::Instant;

#[derive(Clone, Copy, Debug, PartialEq, Eq)]
pub enum Tier {
    Quick,
    Thorough,
}

#[derive(Clone, Debug)]
pub struct Cx {
    pub tier: Tier,
    pub seed: u64,
    pub profile: String,
    /// true when built with overflow checks / debug assertions
    pub checked: bool,
    /// sanitizer / interpreter run: scale workloads down by this divisor (1 = full)
    pub scale_div: u64,
}

impl Cx {
    pub fn quick(&self) -> bool {
        self.tier == Tier::Quick
    }
    /// choose a count by tier, scaled down for sanitizer runs
    pub fn n(&self, quick: u64, thorough: u64) -> u64 {
        // the quick budgets written in the property modules are multiplied by 6 (they were sized when
        // the checks took well under a second; the quick tier still stays within a few seconds per check)
        let v = if self.quick() { std::cmp::min(quick * 6, thorough) } else { thorough };
        std::cmp::max(1, v / self.scale_div)
    }
}

/// wall deadline of the running generator in milliseconds since process start (0 = none); only
/// the best-effort sanitizer / interpreter runs set it (--gen-budget-ms)
static DEADLINE_MS: std::sync::atomic::AtomicU64 = std::sync::atomic::AtomicU64::new(0);
static START: std::sync::OnceLock<Instant> = std::sync::OnceLock::new();

/// polled by the long inner loops of the generators
#[inline]
pub fn expired() -> bool {
    let d = DEADLINE_MS.load(std::sync::atomic::Ordering::Relaxed);
    d != 0 && START.get().map(|s| s.elapsed().as_millis() as u64 > d).unwrap_or(false)
}

pub struct Gen {
    pub name: &'static str,
    pub count: u64,
    /// true if the key space is a complete enumeration of a finite space (not seed dependent)
    pub exhaustive: bool,
}

pub trait Property: Sync {
    fn id(&self) -> &'static str;
    fn rule(&self) -> &'static str;
    fn gens(&self, cx: &Cx) -> Vec<Gen>;
    /// run the case(s) of generator `gen` with key `key`
    fn run_key(&self, cx: &Cx, gen: &str, key: u64, rep: &mut Report);
    /// after all keys: check observation floors (push to rep.floors_missing)
    fn floors(&self, _cx: &Cx, _rep: &mut Report) {}
}

fn arg_val(args: &[String], name: &str) -> Option<String> {
    args.iter().position(|a| a == name).and_then(|i| args.get(i + 1)).cloned()
}

fn main() {
    let args: Vec<String> = std::env::args().collect();
    if args.len() < 3 {
        eprintln!("usage: gsemon <PROPERTY> <quick|thorough|replay> --seed N --profile P --out FILE");
        std::process::exit(3);
    }
    let pid = args[1].clone();
    let mode = args[2].clone();
    let seed: u64 = arg_val(&args, "--seed").and_then(|s| s.parse().ok()).unwrap_or(0);
    let profile = arg_val(&args, "--profile").unwrap_or_else(|| "release".into());
    let out = arg_val(&args, "--out");
    let threads: usize = arg_val(&args, "--threads").and_then(|s| s.parse().ok()).unwrap_or(8);
    let scale_div: u64 = arg_val(&args, "--scale-div").and_then(|s| s.parse().ok()).unwrap_or(1);
    let only_gen = arg_val(&args, "--only-gen");
    // sanitizer / interpreter runs: visit only the keys congruent to `key_offset` modulo `key_stride`
    // and stop a generator after a wall budget (best-effort layers; never used for verdict-bearing runs)
    let key_stride: u64 = arg_val(&args, "--key-stride").and_then(|s| s.parse().ok()).unwrap_or(1).max(1);
    let key_offset: u64 = arg_val(&args, "--key-offset").and_then(|s| s.parse().ok()).unwrap_or(0) % key_stride;
    let gen_budget_ms: u128 = arg_val(&args, "--gen-budget-ms").and_then(|s| s.parse().ok()).unwrap_or(u128::MAX);
    let checked = cfg!(debug_assertions);

    let prop = match props::lookup(&pid) {
        Some(p) => p,
        None => {
            eprintln!("unknown property {}", pid);
            std::process::exit(3);
        }
    };
    mon::install_panic_hook();
    let t0 = Instant::now();
    let _ = START.set(t0);

    let tier_s = if mode == "replay" { arg_val(&args, "--tier").unwrap_or_else(|| "quick".into()) } else { mode.clone() };
    let tier = if tier_s == "thorough" { Tier::Thorough } else { Tier::Quick };
    let cx = Cx { tier, seed, profile: profile.clone(), checked, scale_div };

    let mut total = Report::new();
    if mode == "replay" {
        let gen = arg_val(&args, "--gen").expect("--gen");
        let key: u64 = arg_val(&args, "--key").and_then(|s| s.parse().ok()).expect("--key");
        prop.run_key(&cx, &gen, key, &mut total);
    } else {
        let gens = prop.gens(&cx);
        for g in &gens {
            if let Some(og) = &only_gen {
                if og != g.name {
                    continue;
                }
            }
            let tg = Instant::now();
            if gen_budget_ms != u128::MAX {
                DEADLINE_MS.store((t0.elapsed().as_millis() + gen_budget_ms) as u64, std::sync::atomic::Ordering::Relaxed);
            }
            let nthreads = std::cmp::max(1, std::cmp::min(threads as u64, g.count)) as usize;
            let reports: Vec<Report> = std::thread::scope(|s| {
                let mut hs = Vec::new();
                for shard in 0..nthreads {
                    let cx = &cx;
                    let prop = prop;
                    let name = g.name;
                    let count = g.count;
                    hs.push(
                        std::thread::Builder::new()
                            .stack_size(64 << 20)
                            .spawn_scoped(s, move || {
                                let mut rep = Report::new();
                                let mut k = key_offset + shard as u64 * key_stride;
                                while k < count {
                                    if tg.elapsed().as_millis() > gen_budget_ms {
                                        rep.count(&format!("gen.{}.budget-stop", name));
                                        break;
                                    }
                                    let before = rep.viol_sigs.len();
                                    // a panic escaping a monitor is a harness error, never a verdict
                                    let r = mon::guard(|| prop.run_key(cx, name, k, &mut rep));
                                    if let Err(p) = r {
                                        rep.notes.push(format!("HARNESS-PANIC gen={} key={} {}", name, k, p));
                                    }
                                    let _ = before;
                                    k += nthreads as u64 * key_stride;
                                }
                                rep
                            })
                            .unwrap(),
                    );
                }
                hs.into_iter().map(|h| h.join().unwrap()).collect()
            });
            for r in reports {
                total.merge(r);
            }
            total.count_n(&format!("gen.{}.keys", g.name), g.count);
            total.count_n(&format!("gen.{}.ms", g.name), tg.elapsed().as_millis() as u64);
            if g.exhaustive {
                total.exhaustive.push(g.name.to_string());
            }
        }
        if only_gen.is_none() && key_stride == 1 && gen_budget_ms == u128::MAX {
            prop.floors(&cx, &mut total);
        }
    }
    let wall = t0.elapsed().as_secs_f64();
    let js = total.to_json(prop.id(), &tier_s, seed, &profile, wall, prop.rule());
    match out {
        Some(p) => std::fs::write(&p, js).expect("write evidence"),
        None => println!("{}", js),
    }
    let harness_err = total.notes.iter().any(|n| n.starts_with("HARNESS-PANIC"));
    if harness_err {
        std::process::exit(4);
    }
    if !total.violations.is_empty() {
        std::process::exit(1);
    }
    if !total.floors_missing.is_empty() {
        std::process::exit(2);
    }
    std::process::exit(0);
}
