//! SplitMix64: tiny deterministic PRNG (seeded from VERIF_SEED, shard and generator name).

#[derive(Clone, Debug)]
pub struct Rng(pub u64);

impl Rng {
    pub fn new(seed: u64) -> Self {
        Rng(seed ^ 0x9E37_79B9_7F4A_7C15)
    }
    /// derive an independent stream
    pub fn derive(seed: u64, a: u64, b: u64) -> Self {
        let mut r = Rng(seed ^ a.wrapping_mul(0xD6E8_FEB8_6659_FD93) ^ b.wrapping_mul(0xA076_1D64_78BD_642F));
        r.next();
        r.next();
        r
    }
    #[inline]
    pub fn next(&mut self) -> u64 {
        self.0 = self.0.wrapping_add(0x9E37_79B9_7F4A_7C15);
        let mut z = self.0;
        z = (z ^ (z >> 30)).wrapping_mul(0xBF58_476D_1CE4_E5B9);
        z = (z ^ (z >> 27)).wrapping_mul(0x94D0_49BB_1331_11EB);
        z ^ (z >> 31)
    }
    /// uniform in 0..n (n > 0)
    #[inline]
    pub fn below(&mut self, n: usize) -> usize {
        (self.next() % (n as u64)) as usize
    }
    /// uniform in lo..=hi
    #[inline]
    pub fn range(&mut self, lo: usize, hi: usize) -> usize {
        lo + self.below(hi - lo + 1)
    }
    #[inline]
    pub fn chance(&mut self, num: usize, den: usize) -> bool {
        self.below(den) < num
    }
    #[inline]
    pub fn byte(&mut self) -> u8 {
        (self.next() >> 24) as u8
    }
    pub fn pick<'a, T>(&mut self, v: &'a [T]) -> &'a T {
        &v[self.below(v.len())]
    }
    pub fn fill(&mut self, buf: &mut [u8]) {
        let mut i = 0;
        while i + 8 <= buf.len() {
            buf[i..i + 8].copy_from_slice(&self.next().to_le_bytes());
            i += 8;
        }
        while i < buf.len() {
            buf[i] = self.byte();
            i += 1;
        }
    }
    pub fn bytes(&mut self, n: usize) -> Vec<u8> {
        let mut v = vec![0u8; n];
        self.fill(&mut v);
        v
    }
}

/// FNV-1a 64-bit: fingerprints of cases (distinctness counting) and signature hashes.
pub fn fnv(data: &[u8]) -> u64 {
    let mut h: u64 = 0xcbf2_9ce4_8422_2325;
    for b in data {
        h ^= *b as u64;
        h = h.wrapping_mul(0x0000_0100_0000_01B3);
    }
    h
}

pub fn mix(a: u64, b: u64) -> u64 {
    let mut z = a ^ b.wrapping_mul(0x9E37_79B9_7F4A_7C15).rotate_left(23);
    z = (z ^ (z >> 30)).wrapping_mul(0xBF58_476D_1CE4_E5B9);
    z = (z ^ (z >> 27)).wrapping_mul(0x94D0_49BB_1331_11EB);
    z ^ (z >> 31)
}

pub fn hex(b: &[u8]) -> String {
    let mut s = String::with_capacity(b.len() * 2);
    for x in b {
        s.push_str(&format!("{:02x}", x));
    }
    s
}

/// hex with an ellipsis for long strings (for human-readable samples)
pub fn hex_short(b: &[u8], max: usize) -> String {
    if b.len() <= max {
        hex(b)
    } else {
        format!("{}..({} bytes)..{}", hex(&b[..max / 2]), b.len(), hex(&b[b.len() - max / 2..]))
    }
}
