//! Per-run report: counts measured by the monitors, distinct-case fingerprints, samples,
//! violations (with replay descriptions).  Merged over worker threads, written as a partial
//! evidence JSON that `bin/check` merges over the two build profiles.

use std::collections::{BTreeMap, HashSet};

#[derive(Clone, Debug)]
pub struct Violation {
    pub property: String,
    /// stable signature: "<clause>:<input class>" computed from inputs only
    pub signature: String,
    /// human readable description of the observed failure
    pub detail: String,
    /// generator name + key that regenerates the case (see `--replay`)
    pub replay: String,
}

const FP_CAP: usize = 3_000_000;

#[derive(Default)]
pub struct Report {
    pub evaluations: u64,
    pub fingerprints: HashSet<u64>,
    pub fp_saturated: bool,
    pub counters: BTreeMap<String, u64>,
    pub samples: Vec<String>,
    pub violations: Vec<Violation>,
    pub viol_sigs: BTreeMap<String, u64>,
    pub exhaustive: Vec<String>,
    pub floors_missing: Vec<String>,
    pub notes: Vec<String>,
}

impl Report {
    pub fn new() -> Self {
        Self::default()
    }
    #[inline]
    pub fn eval(&mut self) {
        self.evaluations += 1;
    }
    #[inline]
    pub fn evals(&mut self, n: u64) {
        self.evaluations += n;
    }
    /// record a distinct non-trivial case fingerprint
    #[inline]
    pub fn nontrivial(&mut self, fp: u64) {
        if self.fingerprints.len() < FP_CAP {
            self.fingerprints.insert(fp);
        } else {
            self.fp_saturated = true;
        }
    }
    #[inline]
    pub fn count(&mut self, key: &str) {
        self.count_n(key, 1);
    }
    pub fn count_n(&mut self, key: &str, n: u64) {
        if let Some(v) = self.counters.get_mut(key) {
            *v += n;
        } else {
            self.counters.insert(key.to_string(), n);
        }
    }
    pub fn get(&self, key: &str) -> u64 {
        *self.counters.get(key).unwrap_or(&0)
    }
    pub fn sample(&mut self, s: impl FnOnce() -> String) {
        if self.samples.len() < 6 {
            self.samples.push(s());
        }
    }
    pub fn violation(&mut self, property: &str, signature: String, detail: impl FnOnce() -> String, replay: impl FnOnce() -> String) {
        let n = self.viol_sigs.entry(format!("{}|{}", property, signature)).or_insert(0);
        *n += 1;
        if *n == 1 {
            if self.violations.len() < 200 {
                self.violations.push(Violation { property: property.to_string(), signature, detail: detail(), replay: replay() });
            }
        } else if *n <= 64 {
            // keep the shortest witness seen among the first occurrences
            let d = detail();
            if let Some(v) = self.violations.iter_mut().find(|v| v.property == property && v.signature == signature) {
                if d.len() < v.detail.len() {
                    v.detail = d;
                    v.replay = replay();
                }
            }
        }
    }
    pub fn merge(&mut self, o: Report) {
        self.evaluations += o.evaluations;
        for f in o.fingerprints {
            if self.fingerprints.len() < FP_CAP * 4 {
                self.fingerprints.insert(f);
            } else {
                self.fp_saturated = true;
            }
        }
        self.fp_saturated |= o.fp_saturated;
        for (k, v) in o.counters {
            *self.counters.entry(k).or_insert(0) += v;
        }
        for s in o.samples {
            if self.samples.len() < 8 {
                self.samples.push(s);
            }
        }
        for v in o.violations {
            match self.violations.iter_mut().find(|x| x.property == v.property && x.signature == v.signature) {
                Some(x) => {
                    if v.detail.len() < x.detail.len() {
                        *x = v;
                    }
                }
                None => {
                    if self.violations.len() < 400 {
                        self.violations.push(v);
                    }
                }
            }
        }
        for (k, v) in o.viol_sigs {
            *self.viol_sigs.entry(k).or_insert(0) += v;
        }
        for e in o.exhaustive {
            if !self.exhaustive.contains(&e) {
                self.exhaustive.push(e);
            }
        }
        for e in o.floors_missing {
            if !self.floors_missing.contains(&e) {
                self.floors_missing.push(e);
            }
        }
        for e in o.notes {
            if !self.notes.contains(&e) {
                self.notes.push(e);
            }
        }
    }
}

pub fn json_str(s: &str) -> String {
    let mut o = String::with_capacity(s.len() + 2);
    o.push('"');
    for c in s.chars() {
        match c {
            '"' => o.push_str("\\\""),
            '\\' => o.push_str("\\\\"),
            '\n' => o.push_str("\\n"),
            '\r' => o.push_str("\\r"),
            '\t' => o.push_str("\\t"),
            c if (c as u32) < 0x20 => o.push_str(&format!("\\u{:04x}", c as u32)),
            c => o.push(c),
        }
    }
    o.push('"');
    o
}

fn json_list(v: &[String]) -> String {
    let items: Vec<String> = v.iter().map(|s| json_str(s)).collect();
    format!("[{}]", items.join(","))
}

impl Report {
    /// partial evidence (one build profile); merged by bin/check
    pub fn to_json(&self, property: &str, tier: &str, seed: u64, profile: &str, wall_s: f64, rule: &str) -> String {
        let mut s = String::new();
        s.push_str("{\n");
        s.push_str(&format!(" \"property_id\": {},\n", json_str(property)));
        s.push_str(&format!(" \"tier\": {},\n", json_str(tier)));
        s.push_str(&format!(" \"seed\": {},\n", seed));
        s.push_str(&format!(" \"profile\": {},\n", json_str(profile)));
        s.push_str(&format!(" \"wall_s\": {:.3},\n", wall_s));
        s.push_str(&format!(" \"evaluations\": {},\n", self.evaluations));
        s.push_str(&format!(" \"distinct_nontrivial\": {},\n", self.fingerprints.len()));
        s.push_str(&format!(" \"fingerprints_saturated\": {},\n", self.fp_saturated));
        s.push_str(&format!(" \"rule\": {},\n", json_str(rule)));
        s.push_str(&format!(" \"samples\": {},\n", json_list(&self.samples)));
        s.push_str(&format!(" \"exhaustive_subspaces\": {},\n", json_list(&self.exhaustive)));
        s.push_str(&format!(" \"floors_missing\": {},\n", json_list(&self.floors_missing)));
        s.push_str(&format!(" \"notes\": {},\n", json_list(&self.notes)));
        s.push_str(" \"counters\": {");
        let mut first = true;
        for (k, v) in &self.counters {
            if !first {
                s.push(',');
            }
            first = false;
            s.push_str(&format!("\n  {}: {}", json_str(k), v));
        }
        s.push_str("\n },\n");
        s.push_str(" \"violation_signatures\": {");
        first = true;
        for (k, v) in &self.viol_sigs {
            if !first {
                s.push(',');
            }
            first = false;
            s.push_str(&format!("\n  {}: {}", json_str(k), v));
        }
        s.push_str("\n },\n");
        s.push_str(" \"violations\": [");
        first = true;
        for v in &self.violations {
            if !first {
                s.push(',');
            }
            first = false;
            s.push_str(&format!(
                "\n  {{\"property\": {}, \"signature\": {}, \"detail\": {}, \"replay\": {}}}",
                json_str(&v.property),
                json_str(&v.signature),
                json_str(&v.detail),
                json_str(&v.replay)
            ));
        }
        s.push_str("\n ]\n}\n");
        s
    }
}
