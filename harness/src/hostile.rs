//! Receiver states (DESIGN §4.3) and hostile input generators shared by C05, C08, C16.

use crate::mon::{guard, TableMgr};
use crate::refcrc::FastRef;
use crate::rng::Rng;
use crate::util::*;
use crate::wire::{self, ExtEntry, Fields, Kind, Mand, MandTable};
use dvb_gse_rust::crc::DefaultCrc;
use dvb_gse_rust::gse_decap::{DecapStatus, Decapsulator, GseDecapMemory, SimpleGseMemory};
use dvb_gse_rust::label::Label;

/// hand-made packets (independent serialiser) ------------------------------------------------

pub fn mk_complete(lt: u8, label: &[u8], ptype: u16, payload: &[u8]) -> Vec<u8> {
    wire::serialise(&Fields { kind: Kind::Complete, lt, frag_id: 0, total_len: 0, ptype, label, exts: &[], final_ext: false, payload, crc: 0 })
}

pub fn mk_first(lt: u8, label: &[u8], frag_id: u8, total_len: u16, ptype: u16, payload: &[u8]) -> Vec<u8> {
    wire::serialise(&Fields { kind: Kind::First, lt, frag_id, total_len, ptype, label, exts: &[], final_ext: false, payload, crc: 0 })
}

pub fn mk_inter(frag_id: u8, payload: &[u8]) -> Vec<u8> {
    wire::serialise(&Fields { kind: Kind::Inter, lt: 3, frag_id, total_len: 0, ptype: 0, label: &[], exts: &[], final_ext: false, payload, crc: 0 })
}

pub fn mk_end(frag_id: u8, payload: &[u8], crc: u32) -> Vec<u8> {
    wire::serialise(&Fields { kind: Kind::End, lt: 3, frag_id, total_len: 0, ptype: 0, label: &[], exts: &[], final_ext: false, payload, crc })
}

/// a valid fragment train (hand made): returns packets; payload split at the given cut points
pub fn mk_train(fr: &FastRef, lt: u8, label: &[u8], frag_id: u8, ptype: u16, pdu: &[u8], cuts: &[usize]) -> Vec<Vec<u8>> {
    let ll = if lt < 2 { label.len() } else { 0 };
    let wl = if lt < 2 { label } else { &[][..] };
    let total = (2 + ll + pdu.len()) as u16;
    let crc = fr.gse(total, ptype, wl, pdu);
    let mut out = Vec::new();
    let mut prev = 0usize;
    let mut cs: Vec<usize> = cuts.iter().cloned().filter(|c| *c <= pdu.len()).collect();
    cs.sort_unstable();
    if cs.is_empty() {
        cs.push(pdu.len() / 2);
    }
    // intermediate fragments must carry at least one byte (an empty one is refused by receivers)
    cs.dedup();
    for (i, c) in cs.iter().enumerate() {
        if i == 0 {
            out.push(mk_first(lt, wl, frag_id, total, ptype, &pdu[..*c]));
        } else {
            out.push(mk_inter(frag_id, &pdu[prev..*c]));
        }
        prev = *c;
    }
    out.push(mk_end(frag_id, &pdu[prev..], crc));
    out
}

/// Receiver states --------------------------------------------------------------------------

#[derive(Clone)]
pub struct RxState {
    pub name: &'static str,
    pub slots: usize,
    pub pdu_size: usize,
    pub mem: SimpleGseMemory,
    /// complete packet that sets the remembered label (its buffer is given back)
    pub prime: Option<Vec<u8>>,
    pub table: MandTable,
    /// frag ids with an open context
    pub open_ids: Vec<u8>,
    /// when set: the state is rebuilt by provisioning these buffers and decapsulating these packets on a fresh
    /// memory (instead of transplanting the snapshot), so that nothing depends on how the memory keeps its books
    pub rebuild: Option<(Vec<usize>, Vec<Vec<u8>>)>,
}

impl RxState {
    /// A fresh decapsulator in this state.  The snapshot is *transplanted* into a newly constructed
    /// memory (a derived `Clone` of SimpleGseMemory does not preserve the free list's capacity, so a
    /// plain clone could never be provisioned again; cloning is the harness' choice, not an API use
    /// the properties quantify over).
    pub fn instantiate(&self) -> PlainDec {
        self.instantiate_ex(0)
    }

    /// the same with the constructor's `max_pdu_frag` argument set (the bundled memory documents it as unused)
    pub fn instantiate_ex(&self, max_pdu_frag: usize) -> PlainDec {
        if let Some((bufs, pkts)) = &self.rebuild {
            let mut mem = SimpleGseMemory::new(self.slots, self.pdu_size, 0, max_pdu_frag);
            for b in bufs {
                let _ = mem.provision_storage(vec![0u8; *b].into_boxed_slice());
            }
            let mut d = Decapsulator::new(mem, DefaultCrc {}, TableMgr::new(self.table.clone()));
            for p in pkts {
                let _ = guard(|| d.decap(p));
            }
            return d;
        }
        let mut src = self.mem.clone();
        let mut mem = SimpleGseMemory::new(self.slots, self.pdu_size, 0, max_pdu_frag);
        if self.slots > 0 {
            for id in &self.open_ids {
                if let Ok(c) = src.take_frag(*id) {
                    let _ = mem.save_frag(c);
                }
            }
        }
        let mut free = Vec::new();
        while let Ok(b) = src.new_pdu() {
            free.push(b);
        }
        for b in free.into_iter().rev() {
            let _ = mem.provision_storage(b);
        }
        let mut d = Decapsulator::new(mem, DefaultCrc {}, TableMgr::new(self.table.clone()));
        if let Some(p) = &self.prime {
            if let Ok(Ok((DecapStatus::CompletedPkt(b, _), _))) = guard(|| d.decap(p)) {
                let _ = d.provision_storage(b);
            }
        }
        d
    }
}

fn build(name: &'static str, slots: usize, pdu_size: usize, bufs: &[usize], open: &[(u8, usize, u16)], prime: Option<Vec<u8>>, table: MandTable) -> Option<RxState> {
    // open: (frag id, bytes already received, announced total length)
    let mut mem = SimpleGseMemory::new(slots, pdu_size, 0, 0);
    for b in bufs {
        let _ = mem.provision_storage(vec![0u8; *b].into_boxed_slice());
    }
    let mut d = Decapsulator::new(mem, DefaultCrc {}, TableMgr::new(table.clone()));
    let mut open_ids = Vec::new();
    for (id, have, total) in open {
        let payload: Vec<u8> = (0..*have).map(|i| (i as u8) ^ *id).collect();
        // the first fragment carries at most 4000 bytes; the rest arrives in intermediate fragments
        let first_n = std::cmp::min(*have, 4000);
        let p = mk_first(2, &[], *id, *total, 0x0800, &payload[..first_n]);
        match guard(|| d.decap(&p)) {
            Ok(Ok((DecapStatus::FragmentedPkt(_), _))) => {}
            _ => return None,
        }
        let mut off = first_n;
        while off < *have {
            let n = std::cmp::min(4000, *have - off);
            let p = mk_inter(*id, &payload[off..off + n]);
            match guard(|| d.decap(&p)) {
                Ok(Ok((DecapStatus::FragmentedPkt(_), _))) => {}
                _ => return None,
            }
            off += n;
        }
        open_ids.push(*id);
    }
    if name.contains("refilled") {
        // the caller refilled the free list while reassemblies hold buffers
        for b in bufs {
            let _ = d.provision_storage(vec![0u8; *b].into_boxed_slice());
        }
    }
    let mem = d.memory;
    Some(RxState { name, slots, pdu_size, mem, prime, table, open_ids, rebuild: None })
}

pub fn table_all() -> MandTable {
    let mut t = MandTable::none();
    for i in 0..256usize {
        t.t[i] = match i % 4 {
            0 => Mand::NonFinal(i % 7),
            1 => Mand::Final(i % 5),
            2 => Mand::NonFinal(0),
            _ => Mand::Final(0),
        };
    }
    t.t[0x00] = Mand::NonFinal(2);
    // the largest data lengths a manager can declare (8-bit arithmetic on them must not overflow)
    t.t[0xF0] = Mand::NonFinal(254);
    t.t[0xF4] = Mand::NonFinal(255);
    t.t[0xF8] = Mand::NonFinal(253);
    t.t[0xF1] = Mand::Final(255);
    t.t[0xF5] = Mand::Final(254);
    t
}

pub fn table_some() -> MandTable {
    let mut t = MandTable::signalisation();
    t.t[0x10] = Mand::NonFinal(2);
    t.t[0x11] = Mand::Final(3);
    t.t[0xF4] = Mand::NonFinal(255);
    t.t[0xF1] = Mand::Final(255);
    t
}

/// the small states (cheap to clone): used for exhaustive sweeps
pub fn small_states() -> Vec<RxState> {
    let l3 = mk_complete(1, &[0x33, 0x44, 0x55], 0x0800, b"");
    let l6 = mk_complete(0, &[1, 2, 3, 4, 5, 6], 0x0800, b"");
    let cands = vec![
        build("empty-free-list", 2, 64, &[], &[], None, MandTable::none()),
        build("one-free", 2, 64, &[64], &[], None, MandTable::none()),
        build("full-free-list", 2, 64, &[64, 64, 64, 64], &[], None, MandTable::none()),
        build("zero-slots", 0, 64, &[64, 64], &[], None, MandTable::none()),
        build("open-id5", 4, 64, &[64, 64, 64], &[(5, 10, 40)], None, MandTable::none()),
        build("open-id1-aliases-5", 4, 64, &[64, 64, 64], &[(1, 10, 40)], None, MandTable::none()),
        build("all-slots-open-no-free", 2, 64, &[64, 64], &[(0, 8, 40), (1, 8, 40)], None, MandTable::none()),
        build("context-nearly-full", 1, 32, &[32, 32], &[(5, 30, 200)], None, MandTable::none()),
        build("storage-smaller-than-fragments", 2, 8, &[8, 8, 8], &[(5, 4, 60)], None, MandTable::none()),
        build("remembered-3B-label", 2, 64, &[64, 64], &[(5, 10, 40)], Some(l3), MandTable::none()),
        build("remembered-6B-label", 2, 64, &[64, 64], &[], Some(l6.clone()), MandTable::none()),
        build("manager-knows-all", 2, 64, &[64, 64], &[(5, 10, 40)], Some(l6.clone()), table_all()),
        build("manager-knows-some", 2, 64, &[64, 64], &[(5, 10, 40)], None, table_some()),
        build("256-slots", 256, 64, &[64, 64, 64], &[(5, 10, 40), (200, 3, 40)], Some(l6), MandTable::none()),
        build("all-slots-open-free-list-refilled", 2, 64, &[64, 64, 64, 64], &[(5, 10, 40), (0, 8, 40)], None, MandTable::none()),
    ];
    cands.into_iter().flatten().collect()
}

/// 256 slots with an unfinished train on EVERY fragment id and an empty free list (expensive to rebuild)
pub fn all_ids_open_state() -> Option<RxState> {
    let open: Vec<(u8, usize, u16)> = (0..=255u8).map(|i| (i, 4usize, 40u16)).collect();
    let bufs: Vec<usize> = vec![16; 258];
    let mut st = build("256-slots-every-id-open", 256, 16, &bufs, &open, None, MandTable::none())?;
    let pkts: Vec<Vec<u8>> = (0..=255u8).map(|i| mk_first(2, &[], i, 40, 0x0800, &[i, i, i, i])).collect();
    st.rebuild = Some((bufs, pkts));
    Some(st)
}

/// storage >= 64 KiB with a context close to 65535 received bytes (expensive to clone)
pub fn big_state() -> Option<RxState> {
    build("64k-storage-context-near-65535", 1, 70000, &[70000], &[(5, 65000, 65535)], None, MandTable::none())
}

/// Hostile inputs ----------------------------------------------------------------------------

/// bytes following a header word, chosen to reach deep into the parser for that header
pub fn structured_tail(rng: &mut Rng, w: u16, n: usize, st: &RxState) -> Vec<u8> {
    let mut t = Vec::with_capacity(n);
    let kind = Kind::from_word(w);
    let lt = wire::lt_of_word(w);
    let pick_id = |rng: &mut Rng| -> u8 {
        match rng.below(5) {
            0 if !st.open_ids.is_empty() => st.open_ids[rng.below(st.open_ids.len())],
            1 if !st.open_ids.is_empty() && st.slots > 0 => st.open_ids[0].wrapping_add(st.slots as u8),
            2 => 0,
            // the ends of the id range (slot tables sized by the id type)
            3 => [255u8, 254, 1, 128][rng.below(4)],
            _ => rng.byte(),
        }
    };
    let push_type = |rng: &mut Rng, t: &mut Vec<u8>| {
        let ty: u16 = match rng.below(10) {
            0 => rng.below(0x100) as u16,                       // mandatory
            1 => [0x0081u16, 0x0082, 0x0010, 0x0011, 0x00F0, 0x00F4, 0x00F8, 0x00F1, 0x00F5, 0x00F4][rng.below(10)],
            2 => ((1 + rng.below(5)) << 8) as u16 | rng.byte() as u16, // optional, every H-LEN
            3 => 0x0600,
            4 => 0x05FF,
            5 => 0x0100,
            _ => rng.next() as u16 | 0x0800,
        };
        t.extend_from_slice(&ty.to_be_bytes());
    };
    match kind {
        Kind::Inter | Kind::End => {
            t.push(pick_id(rng));
        }
        Kind::First => {
            t.push(pick_id(rng));
            let total: u16 = match rng.below(6) {
                0 => 0,
                1 => 1,
                2 => 2,
                3 => 0xFFFF,
                4 => (n as u16).wrapping_sub(3),
                _ => rng.next() as u16,
            };
            t.extend_from_slice(&total.to_be_bytes());
            push_type(rng, &mut t);
            if lt == 0 && rng.chance(1, 4) {
                t.extend_from_slice(&[0; 6]);
            }
        }
        Kind::Complete => {
            push_type(rng, &mut t);
            if lt == 0 && rng.chance(1, 4) {
                t.extend_from_slice(&[0; 6]);
            }
        }
    }
    // rest: mixture of extension ids, zeros, FF, random
    let mode = rng.below(5);
    while t.len() < n {
        match mode {
            0 => t.push(0),
            1 => t.push(0xFF),
            2 => {
                if rng.chance(1, 3) {
                    push_type(rng, &mut t);
                } else {
                    t.push(rng.byte());
                }
            }
            3 => {
                // chains of optional extensions
                let h = 1 + rng.below(5);
                t.push(h as u8);
                t.push(rng.byte());
                for _ in 0..(2 * h - 2) {
                    t.push(rng.byte());
                }
            }
            _ => t.push(rng.byte()),
        }
    }
    t.truncate(n);
    t
}

/// pool of valid traffic to mutate
pub struct Pool {
    pub trains: Vec<Vec<Vec<u8>>>,
    pub completes: Vec<Vec<u8>>,
}

impl Pool {
    pub fn new(rng: &mut Rng) -> Self {
        let fr = FastRef::new();
        let mut trains = Vec::new();
        let mut completes = Vec::new();
        for i in 0..8 {
            let lt = (i % 4) as u8;
            let label = rng.bytes(6);
            let lab: &[u8] = match lt {
                0 => &label[..6],
                1 => &label[..3],
                _ => &[],
            };
            let lab: Vec<u8> = if lt == 0 && lab.iter().all(|b| *b == 0) { vec![1, 0, 0, 0, 0, 0] } else { lab.to_vec() };
            let plen = [5usize, 20, 40, 60, 200, 1000, 33, 64][i];
            let pdu = rng.bytes(plen);
            let id = [5u8, 1, 0, 9, 200, 77, 5, 1][i];
            let mut cuts = vec![rng.below(plen + 1)];
            if i % 2 == 0 {
                cuts.push(rng.below(plen + 1));
            }
            // lt 3 (re-use) first fragments are valid only after a label-carrying packet
            trains.push(mk_train(&fr, lt, &lab, id, 0x0800 + i as u16, &pdu, &cuts));
            completes.push(mk_complete(lt, &lab, 0x86DD, &pdu[..std::cmp::min(plen, 50)]));
        }
        // signalling packets and extension bearing packets
        completes.push(vec![0xE0, 0x02, 0x00, 0x81]);
        completes.push(vec![0xE0, 0x05, 0x00, 0x82, 1, 2, 3]);
        completes.push(vec![0xE0, 0x08, 0x02, 0x11, 0xAA, 0xBB, 0x08, 0x00, 9, 9]);
        Pool { trains, completes }
    }
}

pub fn hostile_packet(rng: &mut Rng, pool: &Pool, st: &RxState) -> Vec<u8> {
    match rng.below(12) {
        0 => {
            let n = rng.below(8);
            rng.bytes(n)
        }
        1 => {
            let n = if rng.chance(1, 30) { rng.below(8192) } else { rng.below(80) };
            rng.bytes(n)
        }
        2 | 3 => {
            // header word + structured tail, buffer length around the announced length
            let w = rng.next() as u16;
            let ann = (w & 0x0FFF) as usize;
            let n = match rng.below(6) {
                0 => ann,
                1 => ann + 1,
                2 => ann.saturating_sub(1),
                3 => ann + 7,
                4 => rng.below(6),
                _ => std::cmp::min(ann, 2 + rng.below(40)),
            };
            let mut p = w.to_be_bytes().to_vec();
            p.extend(structured_tail(rng, w, n, st));
            p
        }
        4 => {
            // small announced length with structured tail (deep parsing)
            let kind_bits = [0xC000u16, 0x8000, 0x4000, 0x0000][rng.below(4)];
            let lt = rng.below(4) as u16;
            let ann = rng.below(48);
            let w = kind_bits | (lt << 12) | ann as u16;
            let extra = rng.below(4);
            let mut p = w.to_be_bytes().to_vec();
            p.extend(structured_tail(rng, w, ann + extra, st));
            p
        }
        5 => vec![0u8; rng.below(12)],
        6 | 7 | 8 => {
            // mutated valid packet
            let t = &pool.trains[rng.below(pool.trains.len())];
            let mut p = t[rng.below(t.len())].clone();
            mutate(rng, &mut p, st);
            p
        }
        9 => {
            let mut p = pool.completes[rng.below(pool.completes.len())].clone();
            if rng.chance(1, 2) {
                mutate(rng, &mut p, st);
            }
            p
        }
        _ => {
            // intact valid packet (keeps real contexts alive inside hostile histories)
            let t = &pool.trains[rng.below(pool.trains.len())];
            t[rng.below(t.len())].clone()
        }
    }
}

pub fn mutate(rng: &mut Rng, p: &mut Vec<u8>, st: &RxState) {
    if p.is_empty() {
        return;
    }
    match rng.below(9) {
        0 => {
            let i = rng.below(p.len());
            p[i] ^= 1 << rng.below(8);
        }
        1 => {
            let n = rng.below(p.len() + 1);
            p.truncate(n);
        }
        2 => {
            // edit the GSE length field
            if p.len() >= 2 {
                let w = u16::from_be_bytes([p[0], p[1]]);
                let nl = match rng.below(4) {
                    0 => (w & 0x0FFF).wrapping_add(1 + rng.below(8) as u16) & 0x0FFF,
                    1 => (w & 0x0FFF).saturating_sub(1 + rng.below(8) as u16),
                    2 => rng.below(8) as u16,
                    _ => 0x0FFF,
                };
                let nw = (w & 0xF000) | nl;
                p[..2].copy_from_slice(&nw.to_be_bytes());
            }
        }
        3 => {
            // change kind / label type bits
            p[0] = (p[0] & 0x0F) | ((rng.below(16) as u8) << 4);
        }
        4 => {
            // frag id field: aliasing / unknown
            if p.len() >= 3 {
                p[2] = if st.slots > 0 && rng.chance(1, 2) { p[2].wrapping_add(st.slots as u8) } else { rng.byte() };
            }
        }
        5 => {
            // splice random bytes
            let i = rng.below(p.len());
            let n = 1 + rng.below(4);
            for k in 0..n {
                if i + k < p.len() {
                    p[i + k] = rng.byte();
                }
            }
        }
        6 => {
            // append garbage
            let n = 1 + rng.below(8);
            for _ in 0..n {
                p.push(rng.byte());
            }
        }
        7 => {
            // wrong CRC / total length area
            let l = p.len();
            if l >= 4 {
                p[l - 1] ^= 0x01;
            }
        }
        _ => {
            // type field -> extension id
            if p.len() >= 4 {
                let o = if p[0] & 0xC0 == 0x80 { 5 } else { 2 };
                if o + 1 < p.len() {
                    let ty: u16 = match rng.below(3) {
                        0 => rng.below(0x100) as u16,
                        1 => ((1 + rng.below(5)) << 8) as u16 | rng.byte() as u16,
                        _ => 0x0081,
                    };
                    p[o..o + 2].copy_from_slice(&ty.to_be_bytes());
                }
            }
        }
    }
}
