//! Independent reading of ETSI TS 102 606-1 (GSE) and RFC 5163 §5 (extension headers).
//! Shares no code with the crate under test and never calls `dvb_gse_rust::utils`.
//!
//! Fixed header word: S = bit 15, E = bit 14, LT = bits 13..12, GSE length = bits 11..0.
//! Padding <=> S = 0, E = 0, LT = 00.
//! Field order:  complete      type | label | ext.. | payload
//!               first         frag id | total length | type | label | ext.. | payload
//!               intermediate  frag id | payload
//!               end           frag id | payload | crc32

use std::ops::Range;

#[derive(Clone, Copy, Debug, PartialEq, Eq, Hash)]
pub enum Kind {
    Complete,
    First,
    Inter,
    End,
}

impl Kind {
    pub fn bits(self) -> u16 {
        match self {
            Kind::Complete => 0xC000,
            Kind::First => 0x8000,
            Kind::Inter => 0x0000,
            Kind::End => 0x4000,
        }
    }
    pub fn from_word(w: u16) -> Kind {
        match (w >> 14) & 3 {
            3 => Kind::Complete,
            2 => Kind::First,
            1 => Kind::End,
            _ => Kind::Inter,
        }
    }
    pub fn name(self) -> &'static str {
        match self {
            Kind::Complete => "complete",
            Kind::First => "first",
            Kind::Inter => "intermediate",
            Kind::End => "end",
        }
    }
}

/// label type bits (0 = 6 bytes, 1 = 3 bytes, 2 = broadcast, 3 = re-use)
pub fn lt_of_word(w: u16) -> u8 {
    ((w >> 12) & 3) as u8
}

pub fn lt_len(lt: u8) -> usize {
    match lt {
        0 => 6,
        1 => 3,
        _ => 0,
    }
}

pub fn header_word(kind: Kind, lt: u8, gse_len: usize) -> u16 {
    kind.bits() | ((lt as u16 & 3) << 12) | (gse_len as u16 & 0x0FFF)
}

pub fn is_padding_word(w: u16) -> bool {
    (w & 0xF000) == 0
}

/// What a receiver's table says about a mandatory extension id (< 0x0100).
#[derive(Clone, Copy, Debug, PartialEq, Eq)]
pub enum Mand {
    Unknown,
    /// data length in bytes (a real receiver's table can only say 0..=255)
    Final(usize),
    NonFinal(usize),
}

/// Table of mandatory extensions (index = id & 0xFF).
#[derive(Clone)]
pub struct MandTable {
    pub t: [Mand; 256],
}

impl MandTable {
    pub fn none() -> Self {
        MandTable { t: [Mand::Unknown; 256] }
    }
    /// the crate's bundled signalisation manager: 0x81 and 0x82 final, no data
    pub fn signalisation() -> Self {
        let mut m = Self::none();
        m.t[0x81] = Mand::Final(0);
        m.t[0x82] = Mand::Final(0);
        m
    }
    pub fn get(&self, id: u16) -> Mand {
        if id < 0x100 {
            self.t[id as usize]
        } else {
            Mand::Unknown
        }
    }
}

#[derive(Clone, Debug, PartialEq, Eq)]
pub struct ExtEntry {
    pub id: u16,
    pub data: Vec<u8>,
}

#[derive(Clone, Debug, PartialEq, Eq)]
pub enum Malformed {
    /// fewer than 2 bytes
    NoHeader,
    Padding,
    /// buffer shorter than GSE length + 2
    Truncated,
    /// GSE length too small for the fixed fields of this packet kind
    ShortFields,
    /// the extension chain does not fit in the packet
    ExtOverrun,
    UnknownMandatory(u16),
    ZeroLabel,
}

#[derive(Clone, Debug, PartialEq, Eq)]
pub struct Parsed {
    pub kind: Kind,
    pub lt: u8,
    pub gse_len: usize,
    /// gse_len + 2
    pub pkt_len: usize,
    pub frag_id: Option<u8>,
    pub total_len: Option<u16>,
    /// the 2-byte type field as written (protocol type or first extension id)
    pub first_type: Option<u16>,
    pub label: Vec<u8>,
    pub exts: Vec<ExtEntry>,
    /// protocol type after the extension chain (id of a final mandatory extension if one ends the chain)
    pub ptype: Option<u16>,
    /// byte range of the payload inside the packet
    pub payload: Range<usize>,
    pub crc: Option<u32>,
}

fn be16(b: &[u8], o: usize) -> u16 {
    ((b[o] as u16) << 8) | b[o + 1] as u16
}

/// Walk an extension chain that starts with type `first` (already read) at offset `off` of `pkt`
/// (`pkt` is exactly the packet). Returns (entries, final protocol type, new offset).
pub fn walk_chain(pkt: &[u8], mut off: usize, first: u16, table: &MandTable) -> Result<(Vec<ExtEntry>, u16, usize), Malformed> {
    let mut t = first;
    let mut exts = Vec::new();
    loop {
        if t >= 0x0600 {
            return Ok((exts, t, off));
        }
        if t < 0x0100 {
            match table.get(t) {
                Mand::Unknown => return Err(Malformed::UnknownMandatory(t)),
                Mand::Final(n) => {
                    if off + n > pkt.len() {
                        return Err(Malformed::ExtOverrun);
                    }
                    exts.push(ExtEntry { id: t, data: pkt[off..off + n].to_vec() });
                    return Ok((exts, t, off + n));
                }
                Mand::NonFinal(n) => {
                    if off + n + 2 > pkt.len() {
                        return Err(Malformed::ExtOverrun);
                    }
                    exts.push(ExtEntry { id: t, data: pkt[off..off + n].to_vec() });
                    off += n;
                }
            }
        } else {
            let hlen = (t >> 8) as usize; // 1..=5
            let n = 2 * hlen - 2;
            if off + n + 2 > pkt.len() {
                return Err(Malformed::ExtOverrun);
            }
            exts.push(ExtEntry { id: t, data: pkt[off..off + n].to_vec() });
            off += n;
        }
        t = be16(pkt, off);
        off += 2;
    }
}

/// Parse the packet at the start of `buf` (further bytes may follow it).
pub fn parse(buf: &[u8], table: &MandTable) -> Result<Parsed, Malformed> {
    if buf.len() < 2 {
        return Err(Malformed::NoHeader);
    }
    let w = be16(buf, 0);
    if is_padding_word(w) {
        return Err(Malformed::Padding);
    }
    let kind = Kind::from_word(w);
    let lt = lt_of_word(w);
    let gse_len = (w & 0x0FFF) as usize;
    let pkt_len = gse_len + 2;
    if buf.len() < pkt_len {
        return Err(Malformed::Truncated);
    }
    let pkt = &buf[..pkt_len];
    let mut p = Parsed {
        kind,
        lt,
        gse_len,
        pkt_len,
        frag_id: None,
        total_len: None,
        first_type: None,
        label: vec![],
        exts: vec![],
        ptype: None,
        payload: 0..0,
        crc: None,
    };
    let mut off = 2;
    match kind {
        Kind::Inter => {
            if gse_len < 1 {
                return Err(Malformed::ShortFields);
            }
            p.frag_id = Some(pkt[2]);
            p.payload = 3..pkt_len;
        }
        Kind::End => {
            if gse_len < 5 {
                return Err(Malformed::ShortFields);
            }
            p.frag_id = Some(pkt[2]);
            p.payload = 3..pkt_len - 4;
            let c = &pkt[pkt_len - 4..];
            p.crc = Some(u32::from_be_bytes([c[0], c[1], c[2], c[3]]));
        }
        Kind::Complete | Kind::First => {
            let ll = lt_len(lt);
            let fixed = if kind == Kind::First { 3 } else { 0 } + 2 + ll;
            if gse_len < fixed {
                return Err(Malformed::ShortFields);
            }
            if kind == Kind::First {
                p.frag_id = Some(pkt[off]);
                p.total_len = Some(be16(pkt, off + 1));
                off += 3;
            }
            let t = be16(pkt, off);
            off += 2;
            p.first_type = Some(t);
            p.label = pkt[off..off + ll].to_vec();
            off += ll;
            if lt == 0 && p.label.iter().all(|b| *b == 0) {
                return Err(Malformed::ZeroLabel);
            }
            let (exts, ptype, noff) = walk_chain(pkt, off, t, table)?;
            p.exts = exts;
            p.ptype = Some(ptype);
            p.payload = noff..pkt_len;
        }
    }
    Ok(p)
}

/// Description of a packet to serialise (byte-exact).
#[derive(Clone, Debug)]
pub struct Fields<'a> {
    pub kind: Kind,
    pub lt: u8,
    pub frag_id: u8,
    pub total_len: u16,
    /// protocol type; omitted on the wire when `final_ext` (the chain ends in a final mandatory extension)
    pub ptype: u16,
    pub label: &'a [u8],
    pub exts: &'a [ExtEntry],
    pub final_ext: bool,
    pub payload: &'a [u8],
    pub crc: u32,
}

pub fn serialise(f: &Fields) -> Vec<u8> {
    let mut body: Vec<u8> = Vec::new();
    match f.kind {
        Kind::Inter => {
            body.push(f.frag_id);
            body.extend_from_slice(f.payload);
        }
        Kind::End => {
            body.push(f.frag_id);
            body.extend_from_slice(f.payload);
            body.extend_from_slice(&f.crc.to_be_bytes());
        }
        Kind::Complete | Kind::First => {
            if f.kind == Kind::First {
                body.push(f.frag_id);
                body.extend_from_slice(&f.total_len.to_be_bytes());
            }
            if f.exts.is_empty() {
                body.extend_from_slice(&f.ptype.to_be_bytes());
                body.extend_from_slice(f.label);
            } else {
                body.extend_from_slice(&f.exts[0].id.to_be_bytes());
                body.extend_from_slice(f.label);
                for (i, e) in f.exts.iter().enumerate() {
                    body.extend_from_slice(&e.data);
                    if i + 1 < f.exts.len() {
                        body.extend_from_slice(&f.exts[i + 1].id.to_be_bytes());
                    }
                }
                if !f.final_ext {
                    body.extend_from_slice(&f.ptype.to_be_bytes());
                }
            }
            body.extend_from_slice(f.payload);
        }
    }
    let lt = match f.kind {
        Kind::Inter | Kind::End => 3,
        _ => f.lt,
    };
    let mut out = Vec::with_capacity(body.len() + 2);
    out.extend_from_slice(&header_word(f.kind, lt, body.len()).to_be_bytes());
    out.extend_from_slice(&body);
    out
}

/// on-wire length of an extension chain (ids + data; a final mandatory chain replaces the
/// protocol type, a non-final one is followed by it) *in addition to* the 2-byte type field
pub fn chain_extra_len(exts: &[ExtEntry], final_ext: bool) -> usize {
    let mut n = 0;
    for e in exts {
        n += 2 + e.data.len();
    }
    if final_ext {
        n - 2
    } else {
        n
    }
}
