//! Bit-serial CRC-32/MPEG-2 reference (poly 0x04C11DB7, init 0xFFFFFFFF, no reflection, no final XOR).
//! Deliberately table-free and independent of the crate's implementation.

pub const POLY: u32 = 0x04C1_1DB7;

#[inline]
pub fn step(mut crc: u32, byte: u8) -> u32 {
    crc ^= (byte as u32) << 24;
    for _ in 0..8 {
        crc = if crc & 0x8000_0000 != 0 { (crc << 1) ^ POLY } else { crc << 1 };
    }
    crc
}

pub fn crc_bytes(init: u32, data: &[u8]) -> u32 {
    data.iter().fold(init, |c, b| step(c, *b))
}

/// Faster variant for the bulk workloads: a table built *from the bit-serial step* at start-up
/// (so it is still independent of the crate's constant table).
pub struct FastRef {
    tab: [u32; 256],
}

impl FastRef {
    pub fn new() -> Self {
        let mut tab = [0u32; 256];
        for i in 0..256u32 {
            tab[i as usize] = step(0, i as u8);
        }
        FastRef { tab }
    }
    #[inline]
    pub fn bytes(&self, init: u32, data: &[u8]) -> u32 {
        let mut c = init;
        for b in data {
            c = (c << 8) ^ self.tab[(((c >> 24) as u8) ^ *b) as usize];
        }
        c
    }
    /// CRC over total_length(2,BE) | protocol_type(2,BE) | label | pdu
    pub fn gse(&self, total_len: u16, ptype: u16, label: &[u8], pdu: &[u8]) -> u32 {
        let mut c = 0xFFFF_FFFFu32;
        c = self.bytes(c, &total_len.to_be_bytes());
        c = self.bytes(c, &ptype.to_be_bytes());
        c = self.bytes(c, label);
        self.bytes(c, pdu)
    }
}

/// slow, purely bit-serial GSE CRC
pub fn gse_slow(total_len: u16, ptype: u16, label: &[u8], pdu: &[u8]) -> u32 {
    let mut c = 0xFFFF_FFFFu32;
    c = crc_bytes(c, &total_len.to_be_bytes());
    c = crc_bytes(c, &ptype.to_be_bytes());
    c = crc_bytes(c, label);
    crc_bytes(c, pdu)
}
