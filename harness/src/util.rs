//! Shared workload helpers: label alphabet, size lattice, sentinel buffers, guarded calls.

use crate::mon::{guard, MonMem, RecCrc, TableMgr};
use crate::rng::Rng;
use crate::wire::MandTable;
use dvb_gse_rust::crc::DefaultCrc;
use dvb_gse_rust::gse_decap::{DecapError, DecapStatus, Decapsulator, GseDecapMemory, SimpleGseMemory};
use dvb_gse_rust::gse_encap::{ContextFrag, EncapError, EncapMetadata, EncapStatus, Encapsulator};
use dvb_gse_rust::header_extension::Extension;
use dvb_gse_rust::label::Label;

pub type PlainDec = Decapsulator<SimpleGseMemory, DefaultCrc, TableMgr>;
pub type MonDec = Decapsulator<MonMem<SimpleGseMemory>, RecCrc, TableMgr>;

pub fn lt_of_label(l: &Label) -> u8 {
    match l {
        Label::SixBytesLabel(_) => 0,
        Label::ThreeBytesLabel(_) => 1,
        Label::Broadcast => 2,
        Label::ReUse => 3,
    }
}

pub fn label_bytes(l: &Label) -> Vec<u8> {
    match l {
        Label::SixBytesLabel(b) => b.to_vec(),
        Label::ThreeBytesLabel(b) => b.to_vec(),
        _ => vec![],
    }
}

pub fn label_str(l: &Label) -> String {
    match l {
        Label::SixBytesLabel(b) => format!("6B:{}", crate::rng::hex(b)),
        Label::ThreeBytesLabel(b) => format!("3B:{}", crate::rng::hex(b)),
        Label::Broadcast => "bcast".into(),
        Label::ReUse => "reuse".into(),
    }
}

pub fn label_from_wire(lt: u8, bytes: &[u8]) -> Label {
    match lt {
        0 => Label::SixBytesLabel([bytes[0], bytes[1], bytes[2], bytes[3], bytes[4], bytes[5]]),
        1 => Label::ThreeBytesLabel([bytes[0], bytes[1], bytes[2]]),
        2 => Label::Broadcast,
        _ => Label::ReUse,
    }
}

/// random label of a given kind index: 0 six random non-zero, 1 six with a single non-zero byte,
/// 2 three random, 3 three all-zero (legal), 4 broadcast
pub fn gen_label(rng: &mut Rng, kind: usize) -> Label {
    // one label in eight is a "special looking" value of its kind: all ones (not the broadcast label type!),
    // ones and zeroes at the ends, bytes that look like header fields
    if kind != 3 && kind < 4 && rng.chance(1, 8) {
        let six: [[u8; 6]; 6] = [[0xFF; 6], [0, 0, 0, 0, 0, 1], [0x80, 0, 0, 0, 0, 0], [0xFF, 0xFF, 0xFF, 0, 0, 0], [0, 0, 0, 0xFF, 0xFF, 0xFF], [0x30, 0x00, 0xC0, 0x05, 0x00, 0x81]];
        let three: [[u8; 3]; 4] = [[0xFF; 3], [0, 0, 1], [0x80, 0, 0], [0xF0, 0x03, 0x00]];
        return if kind < 2 { Label::SixBytesLabel(six[rng.below(6)]) } else { Label::ThreeBytesLabel(three[rng.below(4)]) };
    }
    match kind {
        0 => {
            let mut b = [0u8; 6];
            loop {
                rng.fill(&mut b);
                if b.iter().any(|x| *x != 0) {
                    break;
                }
            }
            Label::SixBytesLabel(b)
        }
        1 => {
            let mut b = [0u8; 6];
            b[rng.below(6)] = 1 + rng.below(255) as u8;
            Label::SixBytesLabel(b)
        }
        2 => {
            let mut b = [0u8; 3];
            rng.fill(&mut b);
            Label::ThreeBytesLabel(b)
        }
        3 => Label::ThreeBytesLabel([0, 0, 0]),
        _ => Label::Broadcast,
    }
}

pub const N_LABEL_KINDS: usize = 5;

/// size lattice of DESIGN §4.2
pub fn size_lattice() -> Vec<usize> {
    let mut v: Vec<usize> = Vec::new();
    v.extend(0..=16);
    v.extend([25, 26, 27, 100, 255, 256, 257, 1000]);
    v.extend(4080..=4100);
    v.extend(8190..=8195);
    v.extend([16384, 32767, 32768]);
    v.extend(65520..=65540);
    v.extend([69999, 70000]);
    v
}

/// protocol-type lattice (accepted ranges and the rejected one)
pub fn ptype_lattice() -> Vec<u16> {
    vec![0, 0x80, 0x81, 0x82, 0xFF, 0x100, 0x101, 0x5FF, 0x600, 0x601, 0x800, 0x86DD, 0xFFFE, 0xFFFF]
}

/// protocol types >= 0x0600
pub fn gen_user_ptype(rng: &mut Rng) -> u16 {
    match rng.below(6) {
        0 => 0x0600,
        1 => 0xFFFF,
        2 => 0x0800,
        3 => 0x86DD,
        _ => rng.range(0x0600, 0xFFFF) as u16,
    }
}

/// PDU content classes: 0 random, 1 zeros, 2 ones, 3 looks like GSE headers/padding, 4 ramp
pub fn gen_pdu(rng: &mut Rng, len: usize, class: usize) -> Vec<u8> {
    let mut v = vec![0u8; len];
    match class {
        0 => rng.fill(&mut v),
        1 => {}
        2 => v.iter_mut().for_each(|b| *b = 0xFF),
        3 => {
            let pat: [u8; 8] = [0xC0, 0x02, 0x00, 0x00, 0xE0, 0x1C, 0x40, 0x05];
            for (i, b) in v.iter_mut().enumerate() {
                *b = pat[i % 8];
            }
        }
        _ => {
            for (i, b) in v.iter_mut().enumerate() {
                *b = (i as u8).wrapping_mul(7).wrapping_add(3);
            }
        }
    }
    v
}

/// position-dependent sentinel pattern
#[inline]
pub fn sentinel_byte(i: usize, salt: u8) -> u8 {
    (i as u8).wrapping_mul(37).wrapping_add(salt).wrapping_add((i >> 8) as u8) | 1
}

pub fn sentinel(n: usize, salt: u8) -> Vec<u8> {
    (0..n).map(|i| sentinel_byte(i, salt)).collect()
}

/// first index >= from where buf differs from the sentinel pattern
pub fn sentinel_damage(buf: &[u8], from: usize, salt: u8) -> Option<usize> {
    (from..buf.len()).find(|&i| buf[i] != sentinel_byte(i, salt))
}

pub type EncRes = Result<Result<EncapStatus, EncapError>, String>;
pub type DecRes = Result<Result<(DecapStatus, usize), (DecapError, usize)>, String>;

pub fn enc_guard<C: dvb_gse_rust::crc::CrcCalculator>(enc: &mut Encapsulator<C>, pdu: &[u8], frag_id: u8, meta: EncapMetadata, buf: &mut [u8]) -> EncRes {
    guard(|| enc.encap(pdu, frag_id, meta, buf))
}

pub fn enc_frag_guard<C: dvb_gse_rust::crc::CrcCalculator>(enc: &Encapsulator<C>, pdu: &[u8], ctx: &ContextFrag, buf: &mut [u8]) -> EncRes {
    guard(|| enc.encap_frag(pdu, ctx, buf))
}

pub fn enc_ext_guard<C: dvb_gse_rust::crc::CrcCalculator>(
    enc: &mut Encapsulator<C>,
    pdu: &[u8],
    frag_id: u8,
    meta: EncapMetadata,
    buf: &mut [u8],
    exts: Vec<Extension>,
) -> EncRes {
    guard(|| enc.encap_ext(pdu, frag_id, meta, buf, exts))
}

pub fn dec_guard<M: GseDecapMemory, C: dvb_gse_rust::crc::CrcCalculator, H: dvb_gse_rust::header_extension::MandatoryHeaderExtensionManager>(
    dec: &mut Decapsulator<M, C, H>,
    buf: &[u8],
) -> DecRes {
    guard(|| dec.decap(buf))
}

/// (reported length, context if fragmented)
pub fn status_parts(s: &EncapStatus) -> (usize, Option<ContextFrag>) {
    match s {
        EncapStatus::CompletedPkt(n) => (*n as usize, None),
        EncapStatus::FragmentedPkt(n, c) => (*n as usize, Some(*c)),
    }
}

pub fn enc_res_str(r: &EncRes) -> String {
    match r {
        Err(p) => format!("PANIC({})", p),
        Ok(Err(e)) => format!("Err({:?})", e),
        Ok(Ok(s)) => format!("Ok({:?})", s),
    }
}

pub fn dec_res_str(r: &DecRes) -> String {
    match r {
        Err(p) => format!("PANIC({})", p),
        Ok(Err((e, n))) => format!("Err({:?},{})", short_err(e), n),
        Ok(Ok((s, n))) => match s {
            DecapStatus::CompletedPkt(b, m) => {
                format!("Completed(len={},ptype={:#06x},label={},exts={},buf={}B,consumed={})", m.pdu_len(), m.protocol_type(), label_str(&m.label()), m.extensions().len(), b.len(), n)
            }
            DecapStatus::FragmentedPkt(m) => format!("Fragmented(ptype={:#06x},label={},consumed={})", m.protocol_type(), label_str(&m.label()), n),
            DecapStatus::Padding => format!("Padding(consumed={})", n),
        },
    }
}

pub fn short_err(e: &DecapError) -> String {
    match e {
        DecapError::ErrorMemory(m) => {
            use dvb_gse_rust::gse_decap::DecapMemoryError as D;
            match m {
                D::StorageOverflow(b) => format!("ErrorMemory(StorageOverflow({}B))", b.len()),
                D::BufferTooSmall(b) => format!("ErrorMemory(BufferTooSmall({}B))", b.len()),
                o => format!("ErrorMemory({:?})", o),
            }
        }
        o => format!("{:?}", o),
    }
}

pub fn plain_dec(slots: usize, pdu_size: usize, nbuf: usize, buf_len: usize, table: MandTable) -> PlainDec {
    plain_dec_ex(slots, pdu_size, nbuf, buf_len, table, 0, 0)
}

/// like `plain_dec`, with the two constructor arguments the bundled memory documents as not (yet) used
pub fn plain_dec_ex(slots: usize, pdu_size: usize, nbuf: usize, buf_len: usize, table: MandTable, max_delay: usize, max_pdu_frag: usize) -> PlainDec {
    let mut mem = SimpleGseMemory::new(slots, pdu_size, max_delay, max_pdu_frag);
    for _ in 0..nbuf {
        let _ = mem.provision_storage(vec![0u8; buf_len].into_boxed_slice());
    }
    Decapsulator::new(mem, DefaultCrc {}, TableMgr::new(table))
}

pub fn mon_dec(slots: usize, pdu_size: usize, bufs: &[usize], table: MandTable, crc: RecCrc) -> MonDec {
    let mut mem = SimpleGseMemory::new(slots, pdu_size, 0, 0);
    for l in bufs {
        let _ = mem.provision_storage(vec![0u8; *l].into_boxed_slice());
    }
    let mut mm = MonMem::wrap(mem);
    mm.slots = slots;
    Decapsulator::new(mm, crc, TableMgr::new(table))
}

/// Give a delivered buffer back (ignore a full free list).
pub fn give_back<M: GseDecapMemory, C: dvb_gse_rust::crc::CrcCalculator, H: dvb_gse_rust::header_extension::MandatoryHeaderExtensionManager>(
    dec: &mut Decapsulator<M, C, H>,
    b: Box<[u8]>,
) -> bool {
    dec.provision_storage(b).is_ok()
}
